"""C11 — trace summaries pick the true maximum and count topologies exactly.

Synthetic traces are written in the format `run.py` writes, gzip-pickled to a temporary file and fed to the
real `phyclone map` / `phyclone topology-report` click commands; their output files are read back
(clone table + newick -> tree identity, report rows, archive members) and compared with the Lean model
(`Model/Trace.lean`, op `trace`) and, independently, with a recomputation straight from the trace."""
import gzip
import io
import math
import os
import pickle
import sys
import tarfile
import tempfile
from collections import Counter
from fractions import Fraction

import numpy as np

from ..common import DataSet, gen_dataset, random_canon_tree, build_tree, extract, forest_clades, fr, make_dp
from ..leanio import ModelError

ID = "C11"
LEVEL = "proof"
THEOREMS = ["mapPick_max", "mapCandidates_spec", "mapPick_perm", "freqPick_maxcount", "topo_rows_distinct", "topo_count_correct",
            "topo_counts_sum", "topo_score_is_max", "topo_pointer_attains", "topo_pointers_distinct", "topo_sorted",
            "freqCandidates_maxcount", "archive_is_top_k", "archive_top_ranked", "clampTop_pos"]
BUDGET = {"quick": 55, "thorough": 420}
MAX_JOBS = 12
RULE = ("synthetic traces: 1..4 chains inserted into the results dict in shuffled order (chain 0 present), 0..12 entries "
        "per chain, trees drawn with repetition from a pool of 1..6 distinct trees on 2..6 data points (outliers in a "
        "third of the pools; 'wide' cases: 17..60 topologies with tied scores so that an unstable sort reorders rows), every occurrence rebuilt with shuffled sibling / data order and optionally relabel_nodes() "
        "so equal trees carry different node labels; scores are dyadic floats from a tie-heavy, a distinct or a mixed "
        "palette; --top-trees in {1, 2, #topologies, #topologies+3, 0, -2, default}; thorough adds traces sampled by "
        "the real run_phyclone_chain and larger synthetic ones; a few malformed traces (no chain 0, all chains empty). "
        "Non-trivial: >= 2 distinct topologies and a repeated topology; distinct by input digest.")
TRUSTED = ["pandas DataFrame.sort_values / to_csv / read of the report, tarfile, gzip, pickle and click option parsing sit between "
           "the model and the files compared; sort_values is modelled as *some* sort (rows compared as a set, score column "
           "compared as a sequence, positions compared only where the score is unique)",
           "tree identity of an output (clone table + newick) is reconstructed by the harness from mutation -> clone "
           "assignment and the newick nesting"]
ASSUMPTIONS = ["recorded log_p_one values are finite floats (NaN / -inf entries are C19's subject)",
               "every recorded tree has at least one data point; the results dict has a chain 0 (run.py always writes one)"]
EXPLANATION = ("theorems are about the list model with an abstract tree key and any linearly ordered score; the float "
               "scores of the code are embedded exactly as rationals")


# ----------------------------------------------------------------------------------------------- helpers
def canon_key(forest, outs):
    """Harness-side identity of a tree, independent of phyclone: (sorted clades, sorted outliers)."""
    return (sorted(sorted(c) for c in forest_clades(forest)), sorted(outs))


def model_key(j):
    return (sorted(sorted(c) for c in j["clades"]), sorted(j["outs"]))


def hkey(k):
    return (tuple(tuple(c) for c in k[0]), tuple(k[1]))


def shuffle_forest(rnd, forest):
    out = []
    for d, k in forest:
        d = list(d)
        rnd.shuffle(d)
        out.append([d, shuffle_forest(rnd, k)])
    rnd.shuffle(out)
    return out


def parse_newick(s):
    """'((1)2,0)root;' -> list of (name, children) under the root."""
    s = s.strip()
    assert s.endswith(";"), s
    s = s[:-1]
    pos = 0

    def node():
        nonlocal pos
        kids = []
        if pos < len(s) and s[pos] == "(":
            pos += 1
            while True:
                kids.append(node())
                if s[pos] == ",":
                    pos += 1
                    continue
                assert s[pos] == ")", s
                pos += 1
                break
        st = pos
        while pos < len(s) and s[pos] not in ",()":
            pos += 1
        return (s[st:pos], kids)

    top = node()
    assert pos == len(s) and top[0] == "root", s
    return top[1]


def key_from_outputs(table_text, newick_text):
    """Tree identity (clades, outliers) of a `results table + newick` pair as the commands write them."""
    lines = [l.split("\t") for l in table_text.strip().split("\n")]
    hdr = lines[0]
    mi, ci = hdr.index("mutation_id"), hdr.index("clone_id")
    own = {}
    outs = set()
    for row in lines[1:]:
        m = int(row[mi][1:])
        c = row[ci]
        if c == "-1":
            outs.add(m)
        else:
            own.setdefault(c, set()).add(m)
    clades = set()
    seen = set()

    def go(nd):
        name, kids = nd
        assert name not in seen, f"clone {name} twice in newick"
        seen.add(name)
        s = set(own.get(name, ()))
        for k in kids:
            s |= go(k)
        clades.add(frozenset(s))
        return s

    for nd in parse_newick(newick_text):
        go(nd)
    assert set(own) <= seen, f"clones {set(own) - seen} in the table but not in the newick"
    return (sorted(sorted(c) for c in clades), sorted(outs))


def read_report(text):
    lines = [l.split("\t") for l in text.strip().split("\n")]
    hdr = lines[0]
    rows = []
    for r in lines[1:]:
        d = dict(zip(hdr, r))
        rows.append({"id": d["topology_id"], "count": int(d["count"]), "score": Fraction(float(d["log_p_joint_max"])),
                     "iter": int(d["iter"]), "chain": int(d["chain_num"])})
    return rows


def read_archive(path, problems=None):
    """{topology_id: (table text, newick text)}; departures from the documented member layout (a topology id archived
    twice, an id with half its files, a member of another name) go to `problems`: they are what the property forbids
    (report row and archive member must name the same tree), so they are judged, not raised."""
    out = {}
    problems = [] if problems is None else problems
    with tarfile.open(path) as tf:
        for m in tf.getmembers():
            d, _, f = m.name.partition("/")
            txt = tf.extractfile(m).read().decode()
            slot = out.setdefault(d, {})
            if f == d + "_results_table.tsv":
                if "table" in slot:
                    problems.append(f"archive holds two results tables for {d}")
                    if slot["table"] != txt:
                        problems.append(f"the two results tables archived as {d} differ")
                slot["table"] = txt
            elif f == d + ".nwk":
                if "nwk" in slot:
                    problems.append(f"archive holds two newick files for {d}")
                slot["nwk"] = txt
            else:
                problems.append("unexpected archive member " + m.name)
    for d in list(out):
        if set(out[d]) != {"table", "nwk"}:
            problems.append(f"archive entry {d} lacks " + ", ".join(sorted({"table", "nwk"} - set(out[d]))))
            del out[d]
    return out


# ----------------------------------------------------------------------------------------------- cases
PALETTES = {
    "ties": lambda rnd: Fraction(rnd.choice([-3, -5, -8]), 2),
    "mixed": lambda rnd: Fraction(rnd.randint(-24, -1), 4),
    "distinct": None,
}


def gen_synth(rnd, big=False, wide=False):
    """wide: more than 16 distinct topologies with many ties, so that an unstable sort really reorders tied rows"""
    n = rnd.randint(6, 7) if wide else rnd.randint(2, 7 if big else 6)
    S = rnd.randint(1, 2)
    ds = gen_dataset(rnd, n, S=S, G=rnd.randint(2, 4), bits=2)
    with_out = rnd.random() < 0.34
    pool = {}
    for _ in range(rnd.randint(25, 60) if wide else rnd.randint(1, 9 if big else 6)):
        f, o = random_canon_tree(rnd, n, outliers=with_out, max_out=n - 1)
        pool.setdefault(hkey(canon_key(f, o)), (f, o))
    pool = list(pool.values())
    nch = rnd.choice([1, 1, 2, 2, 3, 4])
    nums = list(range(nch))
    rnd.shuffle(nums)  # dict insertion order = completion order
    pal = rnd.choice(["ties", "ties", "mixed", "mixed", "distinct"]) if not wide else rnd.choice(["ties", "mixed"])
    used = set()
    chains = []
    for c in nums:
        m = rnd.randint(25, 70) if wide else rnd.randint(0 if nch > 1 else 1, 30 if big else 12)
        ents = []
        for _ in range(m):
            f, o = rnd.choice(pool[: rnd.randint(1, len(pool))]) if rnd.random() < 0.5 and not wide else rnd.choice(pool)
            if pal == "distinct":
                while True:
                    sc = Fraction(rnd.randint(-4000, -1), 16)
                    if sc not in used:
                        used.add(sc)
                        break
            else:
                sc = PALETTES[pal](rnd)
            ents.append({"forest": shuffle_forest(rnd, f), "outs": rnd.sample(o, len(o)), "score": fr(sc),
                         "relabel": rnd.random() < 0.3})
        chains.append({"num": c, "entries": ents})
    if all(not c["entries"] for c in chains):
        chains[0]["entries"].append({"forest": pool[0][0], "outs": pool[0][1], "score": "-1/1", "relabel": False})
    ntop = len({hkey(canon_key(e["forest"], e["outs"])) for c in chains for e in c["entries"]})
    tops = sorted({1, 2, ntop, ntop + 3, rnd.choice([0, -2]), rnd.randint(1, max(1, ntop))}) + [None]
    if wide:
        tops = [rnd.randint(2, max(2, ntop - 1)), None]
    elif not big:
        tops = rnd.sample(tops[:-1], 3) + [None]
    return {"kind": "synth", "data": ds.to_json(), "chains": chains, "tops": tops, "palette": pal}


def gen_malformed(rnd, which):
    c = gen_synth(rnd)
    c["kind"] = "malformed"
    c["what"] = which
    if which == "no-chain-0":
        for ch in c["chains"]:
            ch["num"] += 1
    elif which == "all-empty":
        for ch in c["chains"]:
            ch["entries"] = []
    elif which == "chain-0-empty":
        for ch in c["chains"]:
            if ch["num"] == 0:
                ch["num"] = 7
        c["chains"].insert(rnd.randint(0, len(c["chains"])), {"num": 0, "entries": []})
    c["tops"] = [1, None]
    return c


def cases(tier, rnd):
    out = []
    n = 300 if tier == "quick" else 6000
    for i in range(n):
        out.append(gen_synth(rnd, big=(tier == "thorough" and i % 3 == 0)))
    for i in range(8 if tier == "quick" else 150):
        out.append(gen_synth(rnd, wide=True))
    for i in range(6 if tier == "quick" else 24):
        out.append(gen_malformed(rnd, ["no-chain-0", "all-empty", "chain-0-empty"][i % 3]))
    if tier == "thorough":
        for i in range(48):
            out.append({"kind": "sampled", "seed": rnd.randrange(1 << 30), "n": rnd.randint(3, 5), "chains": rnd.randint(1, 3),
                        "iters": rnd.randint(5, 25), "proposal": rnd.choice(["bootstrap", "semi-adapted", "fully-adapted"]),
                        "outlier": rnd.random() < 0.4})
    return out


# ----------------------------------------------------------------------------------------------- building traces
def named_data(ds):
    return [make_dp(i, v, ds.outlier_prob, ds.sizes[i], name=f"m{i}") for i, v in enumerate(ds.vals)]


def build_results(case):
    """-> (results dict as run.py writes it, meta = [(chain, [(forest, outs, score Fraction)])] in dict order)"""
    ds = DataSet.from_json(case["data"])
    data = named_data(ds)
    samples = [f"s{i}" for i in range(ds.S)]
    results, meta = {}, []
    for ch in case["chains"]:
        trace, ments = [], []
        for i, e in enumerate(ch["entries"]):
            t = build_tree(data, e["forest"], e["outs"])
            if e.get("relabel"):
                t.relabel_nodes()
            sc = Fraction(e["score"])
            trace.append({"iter": i, "time": 0.0, "alpha": 1.0, "log_p_one": float(sc), "tree": t.to_dict()})
            assert Fraction(float(sc)) == sc
            ments.append((e["forest"], e["outs"], sc))
        results[ch["num"]] = {"data": data, "samples": samples, "trace": trace, "chain_num": ch["num"]}
        meta.append((ch["num"], ments))
    return results, meta


def sample_results(case):
    from phyclone.run import run_phyclone_chain
    import random as _r

    rnd = _r.Random(case["seed"])
    op = Fraction(1, 8) if case["outlier"] else Fraction(0)
    ds = gen_dataset(rnd, case["n"], S=rnd.randint(1, 2), G=rnd.randint(3, 5), bits=3, outlier_prob=op)
    data = named_data(ds)
    samples = [f"s{i}" for i in range(ds.S)]
    nums = list(range(case["chains"]))
    rnd.shuffle(nums)
    results, meta = {}, []
    old = sys.stdout
    sys.stdout = io.StringIO()
    try:
        for c in nums:
            rng = np.random.default_rng([case["seed"], c])
            res = run_phyclone_chain(2, True, 1.0, data, float("inf"), case["iters"], 4, 1, 1, float(op), 1000,
                                     case["proposal"], 0.5, rng, samples, 1, c, 0.0)
            results[c] = res
    finally:
        sys.stdout = old
    from phyclone.tree import Tree

    for c in nums:
        ments = []
        for x in results[c]["trace"]:
            f, o = extract(Tree.from_dict(x["tree"]))
            ments.append((f, o, Fraction(float(x["log_p_one"]))))
        meta.append((c, ments))
    return results, meta


# ----------------------------------------------------------------------------------------------- running the commands
class Cmd:
    def __init__(self, results, tmp):
        from click.testing import CliRunner

        self.tmp = tmp
        self.trace = os.path.join(tmp, "trace.pkl.gz")
        with gzip.GzipFile(self.trace, "wb") as fh:
            pickle.dump(results, fh)
        self.runner = CliRunner()
        self.k = 0

    def map(self, mode):
        from phyclone import cli

        self.k += 1
        tab, nwk = os.path.join(self.tmp, f"map{self.k}.tsv"), os.path.join(self.tmp, f"map{self.k}.nwk")
        r = self.runner.invoke(cli.map, ["-i", self.trace, "-o", tab, "-t", nwk, "--map-type", mode])
        if r.exit_code != 0 or r.exception is not None:
            return None, repr(r.exception)
        return key_from_outputs(open(tab).read(), open(nwk).read()), None

    def topo(self, archive, top):
        from phyclone import cli

        self.k += 1
        self.archive_problems = []
        rep, arc = os.path.join(self.tmp, f"rep{self.k}.tsv"), os.path.join(self.tmp, f"arc{self.k}.tar.gz")
        args = ["-i", self.trace, "-o", rep]
        if archive:
            args += ["-t", arc]
            if top is not None:
                args += ["--top-trees", str(top)]
        r = self.runner.invoke(cli.topology_report, args)
        if r.exit_code != 0 or r.exception is not None:
            return None, None, repr(r.exception)
        rows = read_report(open(rep).read())
        members = None
        if archive:
            members = {d: key_from_outputs(v["table"], v["nwk"]) for d, v in read_archive(arc, self.archive_problems).items()}
        return rows, members, None


def model_chains(meta):
    return [{"num": c, "entries": [{"forest": f, "outs": o, "score": fr(s)} for f, o, s in ents]} for c, ents in meta]


def ask_or_reject(ctx, req):
    try:
        return ctx.ask(req), None
    except ModelError as e:
        return None, str(e)


# ----------------------------------------------------------------------------------------------- the check
def clear_caches():
    """phyclone's memo tables are keyed by array *content*; different data sets of one worker process with equal bytes but
    different (samples, grid) shapes would otherwise collide (a real run has one data set per process)."""
    from phyclone.utils.dev import clear_proposal_dist_caches
    from phyclone.tree.utils import compute_log_S, _convolve_two_children

    clear_proposal_dist_caches()
    compute_log_S.cache_clear()
    _convolve_two_children.cache_clear()


def check(ctx, case):
    kind = case["kind"]
    ctx.stat("kind_" + kind)
    clear_caches()
    if kind == "sampled":
        results, meta = sample_results(case)
        tops = [1, 2, None]
    else:
        results, meta = build_results(case)
        tops = case["tops"]
    with tempfile.TemporaryDirectory(prefix="c11_") as tmp:
        run_checks(ctx, case, results, meta, tops, tmp)


def run_checks(ctx, case, results, meta, tops, tmp):
    from phyclone.tree import Tree

    cmd = Cmd(results, tmp)
    chains_json = model_chains(meta)
    flat = [(c, i, hkey(canon_key(f, o)), s) for c, ents in meta for i, (f, o, s) in enumerate(ents)]
    by_ptr = {(c, i): (k, s) for c, i, k, s in flat}
    counts = Counter(k for _, _, k, _ in flat)
    best = {}
    for _, _, k, s in flat:
        best[k] = max(best.get(k, s), s)
    valid = bool(flat) and any(c == 0 for c, _ in meta)
    ctx.stat(f"chains_{len(meta)}")
    ctx.stat(f"entries_{min(len(flat) // 5 * 5, 40)}+")
    ctx.stat(f"topologies_{min(len(counts), 8)}" if len(counts) <= 16 else "topologies_17+")
    ctx.stat("dict_order_shuffled" if [c for c, _ in meta] != sorted(c for c, _ in meta) else "dict_order_sorted")
    if len(set(s for *_, s in flat)) < len(flat):
        ctx.stat("has_score_ties")
    if len(counts) > 1 and len(set(best.values())) < len(best):
        ctx.stat("has_ties_between_topology_maxima")

    # tree identity used by the code (Tree.__eq__/__hash__) against the harness's own identity
    trees = {(c, i): Tree.from_dict(x["tree"]) for c in results for i, x in enumerate(results[c]["trace"])}
    ptrs = list(trees)
    for a in range(min(len(ptrs), 12)):
        for b in range(a, min(len(ptrs), 12)):
            same = by_ptr[ptrs[a]][0] == by_ptr[ptrs[b]][0]
            ta, tb = trees[ptrs[a]], trees[ptrs[b]]
            if (ta == tb) != same or (same and hash(ta) != hash(tb)):
                ctx.oracle_fail(case, "Tree equality / hash disagrees with (clades, outliers) identity", "Tree.__eq__", "identity",
                                {"a": ptrs[a], "b": ptrs[b]})
                break

    def fail_cmd(what, err, model_err):
        """a command raised: fine iff the trace is malformed and the model rejects it too"""
        if valid:
            ctx.oracle_fail(case, f"{what} failed on a valid trace", what, "crash", err)
        elif model_err is None:
            ctx.corr_fail(case, f"{what}: code rejects, model accepts", err)
        else:
            ctx.stat("both_reject")

    # ---------------------------------------------------------------- MAP, joint-likelihood mode
    got, err = cmd.map("joint-likelihood")
    ans, merr = ask_or_reject(ctx, {"op": "trace", "cmd": "map", "chains": chains_json})
    if got is None:
        fail_cmd("write_map_results[joint-likelihood]", err, merr)
    else:
        gmax = max(s for *_, s in flat)
        if not any(k == hkey(got) and s == gmax for _, _, k, s in flat):
            ctx.oracle_fail(case, "MAP tree's recorded log_p_one is not the maximum over all entries", "write_map_results",
                            "map-not-max", {"picked": got, "max": float(gmax),
                                            "best_of_picked": float(best[hkey(got)]) if hkey(got) in best else None})
        if ans is None:
            ctx.corr_fail(case, "map: model rejects, code accepts", merr)
        else:
            cands = {hkey(model_key(e["key"])) for e in ans["candidates"]}
            mine = hkey(model_key(ans["pick"]["key"]))
            # ties at the maximum between different trees: the property allows either, so does the comparison
            if hkey(got) not in cands or mine not in cands or (len(cands) == 1 and mine != hkey(got)):
                ctx.corr_fail(case, "map: picked tree differs", {"code": got, "model": ans["pick"]})
            ctx.stat("map_unique_argmax_tree" if len(cands) == 1 else "map_tied_argmax_trees")
            if mine == hkey(got):
                ctx.stat("map_pick_equals_first_max")
            if Fraction(ans["pick"]["score"]) != gmax:
                ctx.corr_fail(case, "map: model's pick is not the maximum", ans["pick"])

    # ---------------------------------------------------------------- MAP, frequency mode
    got, err = cmd.map("frequency")
    ans, merr = ask_or_reject(ctx, {"op": "trace", "cmd": "freq", "chains": chains_json})
    if got is None:
        fail_cmd("write_map_results[frequency]", err, merr)
    else:
        if counts.get(hkey(got), 0) != max(counts.values()):
            ctx.oracle_fail(case, "frequency-mode MAP tree is not a topology of maximal count", "write_map_results", "freq-not-max",
                            {"picked": got, "count": counts.get(hkey(got), 0), "max": max(counts.values())})
        if ans is None:
            ctx.corr_fail(case, "freq: model rejects, code accepts", merr)
        else:
            cands = {hkey(model_key(w["key"])) for w in ans["candidates"]}
            if hkey(got) not in cands:
                ctx.corr_fail(case, "freq: picked tree is not one of the model's maximal-count rows", {"code": got, "model": ans["candidates"]})
            if hkey(model_key(ans["pick"]["key"])) not in cands:
                ctx.corr_fail(case, "freq: model's own pick is not among its candidates", ans["pick"])
            ctx.stat("freq_unique_candidate" if len(cands) == 1 else "freq_tied_candidates")
            if hkey(model_key(ans["pick"]["key"])) == hkey(got):
                ctx.stat("freq_pick_equals_stable_pick")

    # ---------------------------------------------------------------- topology report (+ archive)
    runs = [(False, None)] + [(True, t) for t in tops]
    for archive, top in runs:
        rows, members, err = cmd.topo(archive, top)
        for pr in getattr(cmd, "archive_problems", []):
            ctx.oracle_fail(case, f"--top-trees {top}: {pr}", "create_topologies_archive", "archive-layout")
        req = {"op": "trace", "cmd": "topo", "chains": chains_json, "archive": archive,
               "top": sys.maxsize if top is None else top, "maxsize": sys.maxsize}
        ans, merr = ask_or_reject(ctx, req)
        if rows is None:
            # without an archive the report never reads results[0]
            if flat and (not archive or valid):
                ctx.oracle_fail(case, "topology report failed on a valid trace", "write_topology_report", "crash", err)
            elif merr is None:
                ctx.corr_fail(case, "topology report: code rejects, model accepts", err)
            else:
                ctx.stat("both_reject")
            continue
        if ans is None:
            ctx.corr_fail(case, "topology report: model rejects, code accepts", merr)
        ctx.stat("report_runs")
        check_report(ctx, case, rows, members, archive, top, ans, flat, by_ptr, counts, best)

    nontrivial = len(counts) >= 2 and max(counts.values()) >= 2
    ctx.done(case, nontrivial=nontrivial,
             sample={"kind": case["kind"], "chains": [(c, len(e)) for c, e in meta], "topologies": len(counts), "tops": tops})


def check_report(ctx, case, rows, members, archive, top, ans, flat, by_ptr, counts, best):
    site = "write_topology_report"
    # ---- direct oracle on the report ------------------------------------------------------------
    rkeys = []
    ok = True
    for pos, r in enumerate(rows):
        if r["id"] != f"t_{pos}":
            ctx.oracle_fail(case, f"row {pos} has id {r['id']}", site, "ids")
            ok = False
        tgt = by_ptr.get((r["chain"], r["iter"]))
        if tgt is None:
            ctx.oracle_fail(case, f"row {pos}: pointer (chain {r['chain']}, iter {r['iter']}) leads nowhere", "count_topology", "pointer")
            ok = False
            rkeys.append(None)
            continue
        k, s = tgt
        rkeys.append(k)
        if s != r["score"]:
            ctx.oracle_fail(case, f"row {pos}: pointed entry has score {float(s)} but the row reports {float(r['score'])}",
                            "count_topology", "pointer-score")
            ok = False
        if r["score"] != best[k]:
            ctx.oracle_fail(case, f"row {pos}: reported score {float(r['score'])} is not the maximum {float(best[k])} over the "
                                  "entries with that tree", "count_topology", "score-not-max")
            ok = False
        if r["count"] != counts[k]:
            ctx.oracle_fail(case, f"row {pos}: count {r['count']} but the tree occurs {counts[k]} times", "count_topology", "count")
            ok = False
    present = [k for k in rkeys if k is not None]
    if len(set(present)) != len(present):
        ctx.oracle_fail(case, "two rows for the same tree", "create_topology_dict_from_trace", "duplicate-row")
        ok = False
    if set(present) != set(counts):
        ctx.oracle_fail(case, "rows do not cover exactly the distinct trees of the trace", "create_topology_dict_from_trace", "row-set",
                        {"rows": len(rows), "distinct": len(counts)})
        ok = False
    if sum(r["count"] for r in rows) != len(flat):
        ctx.oracle_fail(case, "counts do not sum to the number of entries", "count_topology", "count-sum")
        ok = False
    if any(rows[i]["score"] < rows[i + 1]["score"] for i in range(len(rows) - 1)):
        ctx.oracle_fail(case, "rows are not ranked by score", "create_topology_dataframe", "not-sorted")
        ok = False
    if archive:
        want = len(rows) if top is None else min(len(rows), max(1, top))
        if members is None or set(members) != {f"t_{i}" for i in range(want)}:
            ctx.oracle_fail(case, f"archive holds {sorted(members or [])}, requested the top {want}", "create_topologies_archive", "archive-set",
                            {"top": top})
            ok = False
        else:
            for d, k in members.items():
                if hkey(k) != rkeys[int(d[2:])]:
                    ctx.oracle_fail(case, f"archive member {d} holds a different tree than report row {d}", "create_topologies_archive",
                                    "archive-tree")
                    ok = False
    # ---- correspondence with the model ------------------------------------------------------------
    if ans is None:
        return
    mt = ans["table"]
    # the pointer is compared only for validity (oracle above): which of several entries attaining the maximum it names
    # is a tie-break the property leaves open
    mrows = sorted((hkey(model_key(w["key"])), w["count"], Fraction(w["score"])) for w in mt)
    crows = sorted((rkeys[i] if rkeys[i] is not None else ((), ()), r["count"], r["score"]) for i, r in enumerate(rows))
    if sorted((w["chain"], w["iter"]) for w in mt) == sorted((r["chain"], r["iter"]) for r in rows):
        ctx.stat("pointers_equal_first_attaining_entry")
    if mrows != crows:
        ctx.corr_fail(case, "topology rows differ (as sets)", {"code": crows[:6], "model": mrows[:6]})
        return
    if [Fraction(w["score"]) for w in mt] != [r["score"] for r in rows]:
        ctx.corr_fail(case, "score column differs", None)
        return
    sc = Counter(r["score"] for r in rows)
    for i, r in enumerate(rows):
        if sc[r["score"]] == 1 and hkey(model_key(mt[i]["key"])) != rkeys[i]:
            ctx.corr_fail(case, f"rank {i} (unique score) holds different trees", None)
    if archive:
        ma = ans["archive"]
        if sorted(f"t_{p['rank']}" for p in ma) != sorted(members or []):
            ctx.corr_fail(case, "archived ranks differ", {"code": sorted(members or []), "model": [p["rank"] for p in ma], "top": top})
        elif ok:
            for p in ma:
                r = p["rank"]
                if sc[rows[r]["score"]] == 1 and hkey(model_key(p["row"]["key"])) != hkey(members[f"t_{r}"]):
                    ctx.corr_fail(case, f"archive member t_{r} differs from the model's", None)


# ----------------------------------------------------------------------------------------------- search / shrink
def search(ctx, failed_cases, rnd, deadline):
    """Oracle-only: the checks above need the model only for the correspondence part."""
    import time

    class NoModel:
        def ask(self, req):
            raise ModelError("search runs without the model")

    ctx.lean = NoModel()
    for c in list(failed_cases) + [gen_synth(rnd) for _ in range(150)]:
        if time.time() > deadline or ctx.oracle_failures:
            break
        check(ctx, c)
    ctx.corr_failures.clear()


def shrink(failure):
    """Greedy: drop chains (never chain 0), then entries, then --top-trees values, while an oracle failure with the same
    signature remains.  Oracle only (no model)."""
    import copy
    import time
    from ..runner import Ctx

    case = failure.get("case")
    if not isinstance(case, dict) or case.get("kind") not in ("synth", "malformed"):
        return failure
    sig = failure.get("signature")
    t_end = time.time() + 20

    class NoModel:
        def ask(self, req):
            raise ModelError("shrink runs without the model")

    def still_fails(c):
        ctx = Ctx(ID, "quick", 0, NoModel())
        try:
            check(ctx, c)
        except Exception:
            return None
        return next((f for f in ctx.oracle_failures if f["signature"] == sig), None)

    best = failure
    cur = copy.deepcopy(case)
    changed = True
    while changed and time.time() < t_end:
        changed = False
        cands = []
        for ci, ch in enumerate(cur["chains"]):
            if ch["num"] != 0 and len(cur["chains"]) > 1:
                cands.append(("chain", ci, None))
            for ei in range(len(ch["entries"])):
                cands.append(("entry", ci, ei))
        for ti in range(len(cur["tops"])):
            if len(cur["tops"]) > 1:
                cands.append(("top", ti, None))
        for what, a, b in cands:
            if time.time() > t_end:
                break
            c2 = copy.deepcopy(cur)
            try:
                if what == "chain":
                    del c2["chains"][a]
                elif what == "entry":
                    del c2["chains"][a]["entries"][b]
                else:
                    del c2["tops"][a]
            except IndexError:
                continue
            f = still_fails(c2)
            if f is not None:
                cur, best, changed = c2, f, True
                break
    return best
