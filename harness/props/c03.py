"""C03 — joint log-density implements the FS-CRP model and depends only on the tree."""
import math
import random
from fractions import Fraction

import numpy as np
from scipy.special import logsumexp

from ..common import DataSet, gen_values, random_canon_tree, build_tree, extract, forest_size, ckey, fr, make_tree_dist, canon_forest
from phyclone.tree import Tree
from phyclone.smc.swarm import TreeHolder

ID = "C03"
LEVEL = "proof"
THEOREMS = ["pOne_isoP", "pMarg_isoP", "pOne_iso", "pMarg_iso", "canon_iso", "pOne_canon", "pMarg_canon", "pOne_pos", "pMarg_pos", "outlierMarg_single", "outlierMarg_eq", "treeKey_iff", "treeKey_iff_out"]
BUDGET = {"quick": 90, "thorough": 600}
RULE = ("random trees on 1..8 data points (0-3 outliers, cluster sizes 1-3, per-point outlier priors mixed with 0), 1-2 samples, "
        "grid 3..6, alpha in {1/10,3/10,1,7/2,10}; each tree is realised through up to six construction histories (canonical, "
        "shuffled child/label order, SMC-style incremental, relabel+copy+dict round trip, prune-and-regraft from another tree, "
        "TreeHolder) and log_p, log_p_one and the fused variant are compared with the Lean model and with an independent Python "
        "transcription of the property's formula; == and hash are compared with (clades, outliers) equality. Non-trivial: >= 2 "
        "clones or an outlier; distinct by (data, tree, alpha).")
TRUSTED = ["the FS-CRP formula itself is the specification (written once from the property text in Model/Density.lean and, "
           "independently, in this module's oracle); the data term of the oracle reads the tree's root vector, whose correctness is C02"]
ASSUMPTIONS = ["data inside the underflow window of C02"]
TOL = 1e-9
ALPHAS = ["1/10", "3/10", "1/1", "7/2", "10/1"]


def logq(q):
    q = Fraction(q)
    return math.log(q.numerator) - math.log(q.denominator)


def cases(tier, rnd):
    out = []
    for i in range(300 if tier == "quick" else 1500):
        n = rnd.randint(1, 8)
        S = rnd.randint(1, 2)
        G = rnd.randint(3, 6)
        forest, outs = random_canon_tree(rnd, n, outliers=(i % 2 == 0), max_out=3)
        vals = [gen_values(rnd, S, G, bits=3) for _ in range(n)]
        ops = [Fraction(rnd.choice([0, 1, 1, 2, 5]), 10) for _ in range(n)] if i % 2 == 0 else None
        if ops is not None:
            for o in outs:  # an outlier must have a positive outlier prior to be reachable
                if ops[o] == 0:
                    ops[o] = Fraction(1, 10)
        sizes = [rnd.randint(1, 3) for _ in range(n)] if i % 3 == 0 else None
        ds = DataSet(vals, Fraction(0), sizes, ops)
        out.append({"data": ds.to_json(), "forest": forest, "outs": outs, "alpha": rnd.choice(ALPHAS), "hseed": rnd.randrange(1 << 30)})
    return out


# ----------------------------------------------------------------------------- construction histories
def h_shuffled(ds, forest, outs, rnd):
    t = Tree(ds.real[0].grid_size)
    outs = rnd.sample(list(outs), len(outs))  # the outlier *set* is what identifies the tree, not the insertion order
    for o in outs[: len(outs) // 2]:
        t.add_data_point_to_outliers(ds.real[o])

    def mk(node):
        kids = [mk(k) for k in rnd.sample(node[1], len(node[1]))]
        rnd.shuffle(kids)
        dps = list(node[0])
        rnd.shuffle(dps)
        nid = t.create_root_node(children=kids, data=[ds.real[i] for i in dps[:1]])
        for i in dps[1:]:
            t.add_data_point_to_node(ds.real[i], nid)
        return nid

    for x in rnd.sample(forest, len(forest)):
        mk(x)
    for o in outs[len(outs) // 2:]:
        t.add_data_point_to_outliers(ds.real[o])
    return t


def h_smc(ds, forest, outs, rnd):
    """Incremental build along a compatible order, the way the conditional SMC rebuilds a tree."""
    order = []

    def go(node):
        for k in node[1]:
            go(k)
        order.extend((i, id(node)) for i in node[0])

    nodes = {}

    def index(node):
        nodes[id(node)] = node
        for k in node[1]:
            index(k)

    for x in forest:
        index(x)
        go(x)
    pos = sorted(rnd.sample(range(len(order) + len(outs)), len(outs)))
    seq = list(order)
    for p, o in zip(pos, rnd.sample(list(outs), len(outs))):
        seq.insert(p, (o, None))
    t = Tree(ds.real[0].grid_size)
    made = {}
    for i, nid in seq:
        t = t.copy()
        if nid is None:
            t.add_data_point_to_outliers(ds.real[i])
        elif nid in made:
            t.add_data_point_to_node(ds.real[i], made[nid])
        else:
            kids = [made[id(k)] for k in nodes[nid][1]]
            made[nid] = t.create_root_node(children=kids)
            t.add_data_point_to_node(ds.real[i], made[nid])
    return t


def h_roundtrip(ds, forest, outs, rnd):
    t = build_tree(ds.real, forest, outs)
    t.relabel_nodes()
    t = t.copy()
    t = Tree.from_dict(t.to_dict())
    return t


def h_regraft(ds, forest, outs, rnd):
    """Reach the tree by pruning a subtree from a different place and grafting it where it belongs
    (the prune-regraft move's edit sequence): any clone's subtree, parked under any other clone or at
    the top level, including parkings that leave an internal clone childless after the prune."""
    import copy as _c

    if forest_size(forest) < 2:
        return None
    paths = []

    def walk(lst, path):
        for i, node in enumerate(lst):
            paths.append(path + [i])
            walk(node[1], path + [i])

    walk(forest, [])
    path = rnd.choice(paths)
    f2 = _c.deepcopy(forest)
    lst, parent = f2, None
    for i in path[:-1]:
        parent = lst[i]
        lst = lst[i][1]
    sub = lst.pop(path[-1])
    # candidate parking places: every remaining clone, or the top level (if that differs from home)
    places = []

    def collect(l):
        for node in l:
            if node is not parent:
                places.append(node)
            collect(node[1])

    collect(f2)
    if parent is not None:
        places.append(None)
    if not places:
        return None
    park = rnd.choice(places)
    (f2 if park is None else park[1]).append(sub)
    t = build_tree(ds.real, canon_forest(f2), outs)
    labels = t.labels
    if not sub[0] or (parent is not None and not parent[0]):
        return None
    st = t.get_subtree(labels[min(sub[0])])
    t.remove_subtree(st)
    t.add_subtree(st, parent=None if parent is None else labels[min(parent[0])])
    if rnd.random() < 0.5:
        t.update()
    return t


def h_observed(ds, forest, outs, rnd):
    """Reach the tree by data-point moves (the Gibbs move's edit sequence) on a tree that is looked at in between:
    hashed, compared, used as a set member / dict key, asked for its clades.  Looking must not change what it is."""
    import copy as _c

    nodes = []

    def walk(lst):
        for node in lst:
            nodes.append(node)
            walk(node[1])

    f2 = _c.deepcopy(forest)
    walk(f2)
    donors = [n for n in nodes if len(n[0]) >= 2]
    if not donors or len(nodes) < 2:
        return None
    moves = []
    orig = {id(n): list(n[0]) for n in nodes}
    for home in rnd.sample(donors, min(len(donors), rnd.randint(1, 2))):
        x = rnd.choice(orig[id(home)])
        away = rnd.choice([n for n in nodes if n is not home] + ([None] if outs else []))
        home[0].remove(x)
        moves.append((x, home, away))
        if away is not None:
            away[0].append(x)
    outs2 = list(outs) + [x for x, _, a in moves if a is None]
    t = build_tree(ds.real, canon_forest(f2), sorted(outs2))
    seen = {t: 1}
    hash(t), t == t.copy(), t.get_clades() if hasattr(t, "get_clades") else None
    for x, home, away in moves:
        labels = t.labels
        anchor = labels[min(d for d in orig[id(home)] if d != x)]
        if away is None:
            t.remove_data_point_from_outliers(ds.real[x])
        else:
            t.remove_data_point_from_node(ds.real[x], labels[x])
        hash(t), (t in seen)
        t.add_data_point_to_node(ds.real[x], anchor)
        seen[t.copy()] = 2
    return t


HISTORIES = {"shuffled": h_shuffled, "smc": h_smc, "roundtrip": h_roundtrip, "regraft": h_regraft, "observed": h_observed}


# ----------------------------------------------------------------------------- independent oracle
def oracle(ds, forest, outs, alpha, tree):
    K = forest_size(forest)
    la = math.log(alpha)
    sizes, kids_counts, roots_m = [], [len(forest)], []

    def go(node):
        sizes.append(len(node[0]))
        kids_counts.append(len(node[1]))
        return 1 + sum(go(k) for k in node[1])

    for x in forest:
        roots_m.append(go(x))
    crp = K * la + sum(math.lgamma(s) for s in sizes)  # log (s-1)!
    mult = sum(math.lgamma(c + 1) for c in kids_counts)
    in_tree = [i for i in range(ds.n) if i not in outs]
    op = sum(ds.sizes[i] * math.log1p(-float(ds.ops[i])) for i in in_tree if ds.ops[i] != 0)
    op += sum(ds.sizes[i] * math.log(float(ds.ops[i])) for i in outs if ds.ops[i] != 0)
    om = 0.0
    G = ds.G
    for i in outs:
        for s in range(ds.S):
            acc, tot = Fraction(0), Fraction(0)
            for k in range(G):
                acc += ds.vals[i][s][k] / G
                tot += acc / G
            om += logq(tot)
    r = len(forest)
    topo_marg = -(K - 1) * math.log(K + 1)
    if r == 0:
        r_term = 0.0
    else:
        c = Fraction(1000)
        r_term = logq((1 / c ** (r - 1)) * (1 - 1 / c) / (1 - 1 / c ** r))
    topo_one = -sum((m - 1) * math.log(m) for m in roots_m) + r_term
    root = tree.data_log_likelihood
    d_marg = sum(float(logsumexp(root[s, :])) for s in range(ds.S)) if r else 0.0
    d_one = sum(float(root[s, -1]) for s in range(ds.S)) if r else 0.0
    base = crp - mult + op + om
    return base + topo_marg + d_marg, base + topo_one + d_one


def check(ctx, case):
    ds = DataSet.from_json(case["data"])
    forest, outs = case["forest"], case["outs"]
    alpha = Fraction(case["alpha"])
    td = make_tree_dist(alpha)
    rnd = random.Random(case["hseed"])
    ctx.stat(f"clones_{forest_size(forest)}")
    ctx.stat(f"outliers_{len(outs)}")
    ctx.stat(f"alpha_{case['alpha']}")
    ans = ctx.ask({"op": "dens", "data": case["data"], "forest": forest, "outs": outs, "alpha": case["alpha"]})
    m_marg, m_one = logq(ans["pMarg"]), logq(ans["pOne"])
    trees = {"canonical": build_tree(ds.real, forest, outs)}
    for name, h in HISTORIES.items():
        t = h(ds, forest, outs, rnd)
        if t is not None:
            trees[name] = t
    o_marg, o_one = oracle(ds, forest, outs, float(alpha), trees["canonical"])
    key = ckey(forest, outs)
    site = "tree.distributions.TreeJointDistribution"
    for name, t in trees.items():
        ctx.stat("history_" + name)
        try:
            f2, o2 = extract(t)
        except Exception as e:
            # not readable as a forest by the harness: still judge the property (identity with the canonical build)
            if not (t == trees["canonical"]) or hash(t) != hash(trees["canonical"]):
                ctx.oracle_fail(case, f"history '{name}' gives a tree that does not compare/hash equal to the canonical build "
                                      f"(and is not a well-formed forest: {str(e)[:80]})", "tree.Tree.__eq__", "eq")
            else:
                ctx.corr_fail(case, f"history {name} produced a tree the harness cannot read", str(e)[:300])
            continue
        if ckey(f2, o2) != key:
            ctx.corr_fail(case, f"history {name} did not produce the requested tree", [f2, o2])
            continue
        lp, lp1 = float(td.log_p(t)), float(td.log_p_one(t))
        b, b1 = td.compute_both_log_p_and_log_p_one(t)
        vals = {"log_p": lp, "log_p_one": lp1, "fused log_p": float(b), "fused log_p_one": float(b1)}
        if t.node_last_added_to in t.nodes or t.node_last_added_to == t.outlier_node_name:
            th = TreeHolder(t, td, None)  # only trees a proposal could have produced carry a valid last-added node
            vals["holder log_p"], vals["holder log_p_one"] = float(th.log_p), float(th.log_p_one)
            t2 = th.tree
            if not (t2 == t) or abs(float(td.log_p_one(t2)) - lp1) > TOL:
                ctx.oracle_fail(case, f"TreeHolder round trip of history '{name}' changes the tree or its density", "smc.swarm.TreeHolder", "holder")
        for nm, v in vals.items():
            want_o = o_one if nm.endswith("one") else o_marg
            want_m = m_one if nm.endswith("one") else m_marg
            if not (abs(v - want_o) <= TOL):
                ctx.oracle_fail(case, f"{nm} of history '{name}' = {v} differs from the FS-CRP formula {want_o}", site, nm.split()[-1],
                                {"history": name, "value": v, "formula": want_o})
                break
            if not (abs(v - want_m) <= TOL):
                ctx.corr_fail(case, f"{nm} of history '{name}' differs from the model", {"code": v, "model": want_m})
                break
        if not (t == trees["canonical"]) or hash(t) != hash(trees["canonical"]):
            ctx.oracle_fail(case, f"history '{name}' gives a tree that does not compare/hash equal to the canonical build", "tree.Tree.__eq__", "eq")
    # inequality: a different tree on the same data must compare unequal
    f3, o3 = random_canon_tree(rnd, ds.n, outliers=bool(outs), max_out=3)
    other = build_tree(ds.real, f3, o3)
    same = ckey(f3, o3) == key
    if (other == trees["canonical"]) != same:
        ctx.oracle_fail(case, "== disagrees with (clades, outliers) equality", "tree.Tree.__eq__", "neq", {"other": [f3, o3]})
    # outlier marginal per data point = marginal alone in a single-clone tree
    for i, q in zip(outs, ans["outMarg"]):
        single = build_tree(ds.real, [[[i], []]], [])
        alone = sum(float(logsumexp(single.data_log_likelihood[s, :])) for s in range(ds.S))
        if abs(float(ds.real[i].outlier_marginal_prob) - alone) > TOL:
            ctx.oracle_fail(case, f"outlier marginal of data point {i} differs from its single-clone marginal", "data.base.DataPoint.__init__", "outlier-marginal")
        if abs(float(ds.real[i].outlier_marginal_prob) - logq(q)) > TOL:
            ctx.corr_fail(case, f"outlier marginal of data point {i} differs from the model", None)
    ctx.done(case, nontrivial=(forest_size(forest) >= 2 or len(outs) > 0),
             sample={"forest": forest, "outs": outs, "alpha": case["alpha"], "G": ds.G, "S": ds.S, "histories": sorted(trees)})


def search(ctx, failed, rnd, deadline):
    import time

    for c in failed + cases("quick", rnd):
        if time.time() > deadline:
            break
        ds = DataSet.from_json(c["data"])
        td = make_tree_dist(Fraction(c["alpha"]))
        hr = random.Random(c["hseed"])
        trees = {"canonical": build_tree(ds.real, c["forest"], c["outs"])}
        for name, h in HISTORIES.items():
            t = h(ds, c["forest"], c["outs"], hr)
            if t is not None:
                trees[name] = t
        o_marg, o_one = oracle(ds, c["forest"], c["outs"], float(Fraction(c["alpha"])), trees["canonical"])
        ctx.evaluations += 1
        for name, t in trees.items():
            if not (t == trees["canonical"]) or hash(t) != hash(trees["canonical"]):
                ctx.oracle_fail(c, f"history '{name}' gives a tree that does not compare/hash equal to the canonical build", "tree.Tree.__eq__", "eq")
                return
            b, b1 = td.compute_both_log_p_and_log_p_one(t)
            for nm, v, w in (("log_p", float(td.log_p(t)), o_marg), ("log_p_one", float(td.log_p_one(t)), o_one), ("fused log_p", float(b), o_marg), ("fused log_p_one", float(b1), o_one)):
                if not (abs(v - w) <= TOL):
                    ctx.oracle_fail(c, f"{nm} of history '{name}' = {v} differs from the FS-CRP formula {w}", "tree.distributions.TreeJointDistribution", nm.split()[-1])
                    return
