"""C02 — tree likelihood equals the exact CCF-grid marginal under the sum constraint."""
import itertools
import math
from fractions import Fraction

import numpy as np

from ..common import DataSet, gen_values, random_canon_tree, build_tree, extract, forest_size, fr
from phyclone.tree import Tree
from phyclone.data.base import DataPoint

ID = "C02"
LEVEL = "proof"
THEOREMS = ["rootR_eq_bruteforce", "rootR_iso", "rootR_dfiso", "rootR_dfisoP", "rootR_pos"]
BUDGET = {"quick": 90, "thorough": 600}
RULE = ("random forests (1..7 clones quick / 1..12 thorough, up to 4 children, 1-3 samples, grid 2..8 / ..30) with dyadic "
        "likelihoods; every clone's cached vectors and the root vector of the real tree are compared with the Lean model "
        "(exact rationals) and, independently, with a Python brute-force sum over all index assignments; float-only "
        "cases: ill-conditioned rows (dynamic range 1e-30) and grid sizes 999/1000/1001 across the FFT switch. "
        "A case is non-trivial when the forest has a clone with >= 2 children or depth >= 2; distinct by input digest.")
TRUSTED = ["IEEE-754 arithmetic, np.convolve, scipy.signal.fftconvolve, np.logaddexp.accumulate are outside the model: the "
           "floating-point clauses (floor 1e-100, FFT accuracy, finiteness) are decided by the numerical comparison only"]
ASSUMPTIONS = ["data inside the underflow window for the exact comparison (values >= 2^-6)"]
TOL = 1e-9


def logq(q):
    q = Fraction(q)
    return math.log(q.numerator) - math.log(q.denominator)


def depth(forest):
    return 0 if not forest else 1 + max(depth(k) for _, k in forest)


def max_kids(forest):
    return max([len(forest)] + [max_kids(k) for _, k in forest]) if forest else 0


def cases(tier, rnd):
    out = []
    n_rand = 400 if tier == "quick" else 1500
    for i in range(n_rand):
        big = tier == "thorough" and i % 4 == 0
        n = rnd.randint(1, 12 if big else 7)
        S = rnd.randint(1, 3)
        G = rnd.randint(2, 30 if big else 8)
        forest, outs = random_canon_tree(rnd, n, outliers=(i % 5 == 0))
        vals = [gen_values(rnd, S, G, bits=rnd.choice([2, 4, 6])) for _ in range(n)]
        if i % 3 == 0:  # mutations with identical read counts: several data points share one grid
            for j in range(1, n):
                if rnd.random() < 0.5:
                    vals[j] = vals[rnd.randrange(j)]
        out.append({"kind": "exact", "data": DataSet(vals).to_json(), "forest": forest, "outs": outs})
    for i in range(12 if tier == "quick" else 60):
        out.append({"kind": "illcond", "seed": rnd.randrange(1 << 30), "G": rnd.choice([5, 11, 40]), "kids": rnd.randint(2, 4),
                    "S": 1 + i % 3, "offset": rnd.choice([0, 150, 800, 900])})
    for G in ([1000] if tier == "quick" else [999, 1000, 1001, 1500]):
        out.append({"kind": "fft", "seed": rnd.randrange(1 << 30), "G": G, "kids": rnd.randint(2, 3)})
        out.append({"kind": "fft", "seed": rnd.randrange(1 << 30), "G": G, "kids": rnd.randint(2, 3), "ill": True})
        out.append({"kind": "fft", "seed": rnd.randrange(1 << 30), "G": G, "kids": 2, "ill": "peaked"})
    # large grids again, but reached through an edit history over two live trees that share the process-wide memo tables
    for G in ([1000] if tier == "quick" else [1000, 1001, 1200]):
        for S in ((1,) if tier == "quick" else (1, 2)):
            out.append({"kind": "fft_hist", "seed": rnd.randrange(1 << 30), "G": G, "S": S})
    return out


def brute_root(ds, forest, s):
    """Independent specification: sum over all index assignments (Fractions)."""
    nodes = []  # preorder: (dps, parent position or -1)

    def walk(node, par):
        me = len(nodes)
        nodes.append((node[0], par))
        for k in node[1]:
            walk(k, me)

    for x in forest:
        walk(x, -1)
    m, G = len(nodes), ds.G
    prior = Fraction(1, G)
    w = [[prior * math.prod((ds.vals[i][s][g] for i in dps), start=Fraction(1)) for g in range(G)] for dps, _ in nodes]
    tot = [Fraction(0)] * G
    for a in itertools.product(range(G), repeat=m):
        csum = [0] * m
        top = 0
        for j, (_, par) in enumerate(nodes):
            if par < 0:
                top += a[j]
            else:
                csum[par] += a[j]
        if top >= G or any(csum[j] > a[j] for j in range(m)):
            continue
        p = Fraction(1)
        for j in range(m):
            p *= w[j][a[j]]
        tot[top] += p
    acc, res = Fraction(0), []
    for k in range(G):
        acc += tot[k]
        res.append(prior * acc)
    return res


def check(ctx, case):
    kind = case["kind"]
    ctx.stat("kind_" + kind)
    if kind == "exact":
        return check_exact(ctx, case)
    if kind == "illcond":
        return check_float(ctx, case, fft=False)
    if kind == "fft_hist":
        return check_fft_history(ctx, case)
    return check_float(ctx, case, fft=True)


def check_exact(ctx, case):
    ds = DataSet.from_json(case["data"])
    forest, outs = case["forest"], case["outs"]
    tree = build_tree(ds.real, forest, outs)
    f2, o2 = extract(tree)
    if f2 != forest or o2 != outs:
        ctx.corr_fail(case, "tree built through the API differs from the requested tree", [f2, o2])
    nodes = forest_size(forest)
    ctx.stat(f"nodes_{nodes}")
    ctx.stat(f"G_{ds.G}")
    ctx.stat(f"S_{ds.S}")
    ctx.stat(f"maxkids_{max_kids(forest)}")
    ans = ctx.ask({"op": "lik", "data": case["data"], "forest": forest, "outs": outs})
    real = {}
    for idx in tree._graph.node_indices():
        nd = tree._graph[idx]
        if nd.node_id != "root":
            real[tuple(sorted(nd.data_points))] = nd
    for mn in ans["nodes"]:
        nd = real.get(tuple(mn["dps"]))
        if nd is None:
            ctx.corr_fail(case, "model clone missing in real tree", mn["dps"])
            continue
        for nm, arr in (("p", nd.log_p), ("r", nd.log_r)):
            for s in range(ds.S):
                for k in range(ds.G):
                    e = logq(mn[nm][s][k])
                    if not (abs(arr[s, k] - e) <= TOL):
                        ctx.corr_fail(case, f"clone {mn['dps']} log_{nm}[{s},{k}]", {"code": float(arr[s, k]), "model": e})
                        return
    root = tree.data_log_likelihood
    if not np.all(np.isfinite(root)):
        ctx.oracle_fail(case, "root likelihood vector not finite", "Tree.data_log_likelihood", "nonfinite")
    # with no clone at all the root vector is never read by the code (guarded by the child count)
    for s in range(ds.S if forest else 0):
        for k in range(ds.G):
            e = logq(ans["root"][s][k])
            if not (abs(root[s, k] - e) <= TOL):
                ctx.corr_fail(case, f"root vector [{s},{k}]", {"code": float(root[s, k]), "model": e})
                break
    # direct oracle: brute force over all assignments, independent of the model
    if nodes and ds.G ** nodes <= 40000:
        ctx.stat("brute_force_checked")
        for s in range(ds.S):
            bf = brute_root(ds, forest, s)
            for k in range(ds.G):
                if not (abs(root[s, k] - logq(bf[k])) <= TOL):
                    ctx.oracle_fail(case, f"root vector [{s},{k}] differs from the brute-force marginal",
                                    "Tree.data_log_likelihood", "value",
                                    {"code": float(root[s, k]), "exact": logq(bf[k])})
                    break
                if Fraction(ans["root"][s][k]) != bf[k]:
                    ctx.corr_fail(case, f"model root [{s},{k}] differs from the brute-force marginal", None)
                    break
    ctx.done(case, nontrivial=(max_kids(forest) >= 2 or depth(forest) >= 2),
             sample={"forest": forest, "outs": outs, "G": ds.G, "S": ds.S, "n": ds.n})


def check_float(ctx, case, fft):
    """One clone with `kids` leaf children on a wide-dynamic-range / large grid, several samples whose
    overall scale differs by `offset` nats: float result vs an extended-precision reference."""
    rng = np.random.default_rng(case["seed"])
    G, kids = case["G"], case["kids"]
    S = case.get("S", 1)
    offs = [0.0] + [float(case.get("offset", 0)) * (s % 2) + 10.0 * s for s in range(1, S)]
    vals = []
    for _ in range(kids + 1):
        if fft and case.get("ill"):
            # wide dynamic range on the FFT path: where the true convolution is far below the FFT's round-off the transform
            # returns tiny negative numbers, which must be floored *before* the log (finite output), see C02's floor clause
            if case["ill"] == "peaked":
                # smooth, sharply peaked rows (what deep-coverage binomial likelihoods look like): over most of the grid
                # the true convolution is ~1e-100 of its peak, so the FFT output there is round-off of either sign
                x = np.linspace(0.0, 1.0, G)
                v = np.stack([np.exp(-0.5 * ((x - rng.uniform(0.25, 0.9)) / 0.03) ** 2) + 1e-300 for _ in range(S)])
            else:
                v = np.exp(-rng.uniform(0, 45, size=(S, G)))
        elif fft:
            v = rng.uniform(0.05, 1.0, size=(S, G))
        else:
            v = np.exp(-rng.uniform(0, 70, size=(S, G)))  # dynamic range ~1e-30 within a row
        vals.append(v)
    # per-sample scale offsets are applied in the log domain (a deep sample next to a shallow one)
    data = [DataPoint(i, np.log(v) - np.array(offs)[:, None]) for i, v in enumerate(vals)]
    t = Tree((S, G))
    ch = [t.create_root_node(children=[], data=[data[i]]) for i in range(1, kids + 1)]
    t.create_root_node(children=ch, data=[data[0]])
    root = t.data_log_likelihood
    if not np.all(np.isfinite(root)):
        ctx.oracle_fail(case, "root likelihood vector not finite", "Tree.data_log_likelihood", "nonfinite")
    ld = np.longdouble
    prior = ld(1) / ld(G)
    floor = 1e-6 if fft else 1e-80
    if fft and case.get("ill") == "peaked":
        # the root is a double running sum of the transform's output, so on sharply peaked rows the round-off (and the
        # one-sided flooring of negative round-off) accumulates to ~1e-11 of the scale: entries within three orders of the
        # "about 1e-6" floor are not judged for accuracy (finiteness is judged everywhere)
        floor = 1e-3
    rel = 1e-6 if fft else 1e-8
    for s in range(S):
        # reference in extended precision on the unscaled row (all terms positive: direct
        # convolution is accurate to ~1e-17 relative); the scale re-enters as (kids+1)*offset in logs
        R = [vals[i][s].astype(ld) * prior for i in range(1, kids + 1)]
        D = R[0]
        for r in R[1:]:
            D = np.convolve(D, r)[:G]
        node_r = vals[0][s].astype(ld) * prior * np.cumsum(D)
        exact_root = np.cumsum(node_r) * prior
        code = np.exp((root[s] + (kids + 1) * offs[s]).astype(ld))
        peak = exact_root.max()
        if fft:
            # the FFT path is accurate to about 1e-6 *of the peaks of the rows it convolves* (they are normalised to peak 1
            # before the transform); when the children's peaks add up beyond the grid, every kept entry is far below that
            # scale and only finiteness is claimed.  Reference scale = product of the peaks of all factor rows.
            scale = ld(1)
            for r in R:
                scale = scale * r.max()
            peak = scale * (vals[0][s].astype(ld) * prior).max() * prior
        mask = exact_root >= floor * peak
        err = np.abs(code[mask] - exact_root[mask]) / exact_root[mask]
        ctx.stat("float_entries_checked", int(mask.sum()))
        if err.size and float(err.max()) > rel:
            ctx.oracle_fail(case, f"sample {s}: root vector off by relative {float(err.max()):.2e} above the floor",
                            "tree.utils._convolve_two_children", "accuracy")
            break
        if not fft and np.any(code < exact_root * (1 - 1e-8)):
            ctx.oracle_fail(case, f"sample {s}: reported value below the exact one on the direct path", "tree.utils._np_conv_dims", "below-exact")
            break
    ctx.done(case, nontrivial=True, sample=case)


def check_fft_history(ctx, case):
    """Three top-level clones on a large grid; on a *copy* a new clone is put above two of them (their pairwise
    convolution enters the memo table), then the original is edited so that its root is recomputed from a child set that
    starts with the same pair: the root vector of the original (and of the copy, and of a tree rebuilt afterwards) must
    still be the exact marginal - a memoised intermediate that was overwritten, truncated or aliased shows up here."""
    rng = np.random.default_rng(case["seed"])
    G, S = case["G"], case["S"]
    vals = [rng.uniform(0.05, 1.0, size=(S, G)) for _ in range(5)]
    data = [DataPoint(i, np.log(v)) for i, v in enumerate(vals)]
    t = Tree((S, G))
    names = [t.create_root_node(children=[], data=[data[i]]) for i in range(3)]
    t2 = t.copy()
    t2.create_root_node(children=[names[1], names[2]], data=[data[3]])
    t.add_data_point_to_node(data[4], names[0])
    t3 = Tree((S, G))
    n3 = [t3.create_root_node(children=[], data=[data[i]]) for i in range(3)]
    t3.add_data_point_to_node(data[4], n3[0])
    ld = np.longdouble
    prior = ld(1) / ld(G)

    def conv(a, b):
        return np.convolve(a, b)[:G]

    for s in range(S):
        r = [vals[i][s].astype(ld) * prior for i in range(3)]
        r0 = r[0] * vals[4][s].astype(ld)
        flat = np.cumsum(conv(conv(r[2], r[1]), r0)) * prior
        top = vals[3][s].astype(ld) * prior * np.cumsum(conv(r[2], r[1]))
        nested = np.cumsum(conv(top, r[0])) * prior
        for what, tree, exact in (("original after the edit", t, flat), ("copy with the new clone", t2, nested), ("rebuilt", t3, flat)):
            code = np.exp(tree.data_log_likelihood[s].astype(ld))
            mask = exact >= 1e-6 * exact.max()
            err = np.abs(code[mask] - exact[mask]) / exact[mask]
            ctx.stat("float_entries_checked", int(mask.sum()))
            if not np.all(np.isfinite(tree.data_log_likelihood)) or (err.size and float(err.max()) > 1e-6):
                ctx.oracle_fail(case, f"{what}, sample {s}: root vector off by relative {float(err.max()):.2e} above the floor",
                                "tree.utils.compute_log_S / _convolve_two_children (memo tables shared between trees)", "accuracy-history")
                ctx.done(case, nontrivial=True, sample=case)
                return
    ctx.done(case, nontrivial=True, sample=case)


def search(ctx, failed_cases, rnd, deadline):
    """Oracle-only search (no model): brute force on the disagreeing inputs, then fresh ones."""
    import time

    class NoModel:
        def ask(self, req):
            raise RuntimeError

    for c in failed_cases + cases("quick", rnd):
        if time.time() > deadline:
            break
        if c.get("kind") != "exact":
            check(ctx, c)
            continue
        ds = DataSet.from_json(c["data"])
        forest = c["forest"]
        if ds.G ** max(1, forest_size(forest)) > 40000 or not forest:
            continue
        tree = build_tree(ds.real, forest, c["outs"])
        root = tree.data_log_likelihood
        ctx.evaluations += 1
        for s in range(ds.S):
            bf = brute_root(ds, forest, s)
            for k in range(ds.G):
                if not (abs(root[s, k] - logq(bf[k])) <= TOL):
                    ctx.oracle_fail(c, f"root vector [{s},{k}] differs from the brute-force marginal", "Tree.data_log_likelihood", "value")
                    return
