"""C06 — incrementally maintained likelihoods equal a from-scratch rebuild.

Edit histories over several live `Tree` handles (harness/storehist.py): after every op every handle
that changed is compared (a) with the Lean store model run on the same history (correspondence) and
(b) with an exact from-scratch recomputation of every cached vector plus the joint densities of a
tree rebuilt through the public API (direct oracle, independent of the model)."""
from .. import storehist as sh

ID = "C06"
LEVEL = "proof"
THEOREMS = ["cacheOK_init", "cacheOK_createRootNode", "cacheOK_createAdd", "cacheOK_addDataPointToNode", "cacheOK_removeDataPointFromNode", "cacheOK_removeDataPointFromOutliers", "cacheOK_getSubtree", "cacheOK_removeSubtree", "cacheOK_addSubtree", "cacheOK_relabelNodes", "cacheOK_update", "cacheOK_dictRoundTrip", "cacheOK_step", "cacheOK_reachable_wfc", "cacheOK_reachable", "cacheOK_reachable_of_prefixes", "cacheOK_reachable_legal", "rebuild_eq", "reachable_rebuild", "reachable_rebuild_legal"]
BUDGET = {"quick": 100, "thorough": 900}
SEARCH_BUDGET = 60
EXPLANATION = (
    "Theorems (Props/C06, on the executable store model lean/PhyModel/Model/Store.lean that mirrors phyclone.tree.Tree method "
    "by method): CacheOK (every clone's cached p = prior x product of its data, r = p (.) S(children's cached r); root vector "
    "when a clone exists) holds for the empty tree and is preserved by every edit operation (one theorem per operation, "
    "cacheOK_step over several live handles, cacheOK_reachable / cacheOK_reachable_legal for every legal history of any "
    "length); rebuild_eq: under CacheOK every cached vector equals the from-scratch recursion of Model/Tree.lean and both "
    "cache-read densities equal Density.pOne / pMarg of the abstract tree.  Hypotheses: likelihood values non-zero (C05) "
    "and data indices inside the data set where a data point is removed; well-formedness along the run comes from C07.  "
    "This run: model and real Tree agree after every op of every generated edit history (shape, per-clone data, cached "
    "log_p / log_r as exact rationals vs floats, root vector, both joint densities, name/index maps up to a bijection, which "
    "ops raise), and the direct oracle (exact recomputation of every cached vector along an independent traversal; "
    "densities of a tree rebuilt from scratch) holds on every live handle after every op of every sampler-grammar history."
)
RULE = (
    "edit histories of 5-60 ops (thorough: every 6th 150-400 ops) over 1-7 data points, 1-2 samples, grid 2-5, dyadic "
    "likelihoods >= 1/8, with and without outliers, from the samplers' grammar (SMC placements on copies / dict and pickle "
    "round trips, retained-path construction, data-point move, prune-regraft with several attachment points, subtree move "
    "with outlier hand-over and a rebuilt subtree grafted in, relabel, copy, update), several live handles edited "
    "alternately; plus a quarter of histories outside the grammar (empty clones, name reuse, stale or foreign subtrees, "
    "duplicate grafts, ops that raise) for the model/code correspondence only.  Non-trivial: >= 2 handles and at least one "
    "of remove/add subtree, remove data point, relabel; distinct by descriptor digest.")
TRUSTED = [
    "rustworkx graph mutation (compose, subgraph, remove_node_retain_edges, extend_from_edge_list) is modelled, not verified: "
    "the harness reads the real graph back after every op",
    "floating-point accumulation of repeated add / subtract: tolerance 1e-9 + 1e-13 per op",
]
ASSUMPTIONS = ["likelihood values non-zero and inside the underflow window (generated values >= 2^-3; the property allows >= 2^-8)"]
WANT = {"C06"}


def cases(tier, rnd):
    if tier == "quick":
        return sh.hist_descs(tier, rnd, 1800, 600)
    return sh.hist_descs(tier, rnd, 3600, 1200, long_every=6)


def check(ctx, case):
    sh.check_hist(ctx, case, WANT)


def shrink(failure):
    return sh.shrink_failure(failure, WANT)


def search(ctx, failed_cases, rnd, deadline):
    sh.search_hist(ctx, failed_cases, rnd, deadline, WANT)
