"""C18 — a seeded run is reproducible regardless of scheduling and hash seed.

Runtime differential on the real CLI (`phyclone.cli:main run …` in subprocesses) plus a static scan
for ambient randomness; the Lean model (`Model/Chains.lean`) covers the wiring of `run` only."""
import ast
import json
import math
import os
import re
import shutil
import subprocess
import sys
import tempfile
import threading
import time

from ..inject_c18 import c18_ref

ID = "C18"
LEVEL = "other"
THEOREMS = ["run_lookup", "collect_order_free", "chain_isolated", "single_chain_uses_main", "collect_complete"]
BUDGET = {"quick": 150, "thorough": 900}
MAX_JOBS = 4
USES_MODEL = True
EXPLANATION = (
    "Partial by nature.  Proved (Lean, all chain counts / completion orders / chain bodies): the wiring of run.py:run — the "
    "results dict is the same map for every completion order, key i holds run_phyclone_chain applied to the i-th generator "
    "only (the main generator itself when num_chains == 1, the i-th spawned child otherwise), no chain is lost or duplicated.  "
    "NOT provable in the model, which cannot exhibit OS scheduling, process state, hash seeds or the wall clock: that the worker "
    "processes share nothing, that nothing inside a chain reads np.random's module state / the hash seed / the clock, and that "
    "Generator.spawn is a function of the seed.  Those are exercised, not proved: the real CLI is run in subprocesses with one "
    "seed under varied PYTHONHASHSEED, CPU affinity, chain counts, proposals, outlier settings and injected start/finish "
    "orders of the chain workers (sitecustomize on PYTHONPATH, no repo edit), traces are compared per chain against each other "
    "(direct oracle) and against a sequential in-process reference through the model (correspondence); a static AST scan of "
    "phyclone/ lists every ambient source of randomness / hash-order / clock use and fails on a new unseeded one."
)
RULE = (
    "one static-scan case; run cases: random tiny input TSV (4-5 mutations quick / 3-8 thorough, 1-2 samples, depth 30-150, 2-3 prevalence levels, "
    "copy numbers 1-2), seed, chain count 1/2/3 (thorough up to 4), proposal, outlier prob 0 or >0, density, concentration "
    "update on/off, subtree-update prob, thin; each case = 2-4 executions of the real CLI with the same seed that differ in "
    "PYTHONHASHSEED (0 / 1 / random), CPU pinning (1-2 cores vs all), forced start and finish orders of the chain workers "
    "(marker-file barriers, per-chain sleeps) and, for the prefix check, a finite --max-time; plus one sequential in-process "
    "reference per case.  A run case is non-trivial when the trace of some chain visits >= 2 distinct trees and, for several "
    "chains, when the chains' traces differ from each other and at least one execution completed the chains in a non-identity "
    "order; distinct by case digest (data, options, variants)."
)
TRUSTED = [
    "ProcessPoolExecutor / multiprocessing spawn context / OS scheduler: exercised through forced start/finish orders and CPU pinning, not modelled",
    "numpy Generator.spawn / SeedSequence: assumed to be a function of the seed and the child index",
    "the injected sitecustomize wrapper only delays run_phyclone_chain (marker files + sleeps); it is trusted not to change what a chain computes",
    "the `time` field of trace entries and everything governed by a finite --max-time are wall-clock by definition and excluded (prefix check only)",
]
ASSUMPTIONS = [
    "one machine, one numpy/numba/scipy build: reproducibility across platforms or library versions is not claimed",
    "float fields (alpha, log_p_one) are compared bit for bit: the claim is reproducibility of a rerun on the same machine, and the unchanged code meets it; a difference below 1e-9 relative is tagged ':roundoff' in the signature but still fails",
    "the prefix check for --max-time is made with burnin 1 (a longer burn-in cut short by the clock legitimately changes the start tree)",
    "seeded runs only: instantiate_and_seed_RNG(None) is unseeded by design",
]

ROOT = os.path.dirname(os.path.dirname(os.path.dirname(os.path.abspath(__file__))))
INJECT = os.path.join(ROOT, "harness", "inject_c18")
RUN_TIMEOUT = 420
FLOAT_TOL = 1e-9
DEFAULTS = {
    "burnin": 1, "num_iters": 6, "thin": 1, "num_particles": 4, "grid_size": 11, "proposal": "semi-adapted",
    "outlier_prob": 0.0, "density": "beta-binomial", "precision": 400.0, "concentration_update": True,
    "concentration_value": 1.0, "subtree_update_prob": 0.0, "num_samples_data_point": 1, "num_samples_prune_regraph": 1,
    "print_freq": 100, "resample_threshold": 0.5, "low_loss_prob": 0.0001, "high_loss_prob": 0.4,
    "assign_loss_prob": False, "user_provided_loss_prob": False, "seed": 0, "num_chains": 1,
}


# ----------------------------------------------------------------------------------------- cases
def gen_rows(rnd, n_mut, n_samp):
    """mutations drawn around a few clonal-prevalence levels per sample, so that the posterior is not degenerate"""
    levels = [[rnd.choice([0.9, 0.6, 0.35, 0.15, 0.05]) for _ in range(n_samp)] for _ in range(rnd.randint(2, 3))]
    rows = []
    for m in range(n_mut):
        major = rnd.choice([1, 1, 2])
        minor = rnd.choice([0, 1]) if major == 1 else rnd.choice([0, 1, 2])
        lev = levels[m % len(levels)]
        for s in range(n_samp):
            depth = rnd.randint(30, 150)
            vaf = min(0.95, max(0.02, lev[s] / (major + minor) + rnd.uniform(-0.04, 0.04)))
            alt = max(1, min(depth - 1, round(depth * vaf)))
            rows.append([f"m{m}", f"S{s}", depth - alt, alt, major, minor, 2])
    rnd.shuffle(rows)
    return rows


def variant(hashseed="0", cpus=None, start=None, finish=None, sleep=None, max_time=None, oneworker=None):
    v = {"hashseed": hashseed, "cpus": cpus, "start": start, "finish": finish, "sleep": sleep, "max_time": max_time}
    if oneworker:
        v["oneworker"] = oneworker  # every pool worker but the first sleeps this long at start-up: one worker runs all chains
    return v


def perm_not_identity(rnd, k):
    while True:
        p = list(range(k))
        rnd.shuffle(p)
        if p != list(range(k)):
            return p


def run_case(rnd, k, variants, n_mut=None, **over):
    o = dict(DEFAULTS)
    o.update(
        seed=rnd.randrange(0, 2 ** 31), num_chains=k, proposal=rnd.choice(["semi-adapted", "bootstrap", "fully-adapted"]),
        outlier_prob=rnd.choice([0.0, 0.0, 0.05, 0.2]), num_particles=rnd.randint(3, 8), num_iters=rnd.randint(12, 25),
        concentration_update=rnd.random() < 0.5, concentration_value=rnd.choice([1.0, 1.0, 0.5, 2.5]),
        density=rnd.choice(["beta-binomial", "beta-binomial", "binomial"]),
    )
    o.update(over)
    n_mut = n_mut or rnd.randint(4, 5)
    return {"kind": "run", "rows": gen_rows(rnd, n_mut, rnd.randint(1, 2)), "opts": o, "variants": variants}


def cluster_case(rnd, k, variants, tied=False):
    """input with a cluster file and --assign-loss-prob: load_data draws from the main generator (permutation test per
    cluster of >= 4 mutations) before the chains are seeded from it.  `tied`: string cluster ids where two clusters tie
    for the truncal role (each has the top prevalence in one sample, equal means) and differ in chromosome spread, so any
    dependence on the iteration order of a set/dict of cluster ids changes the outlier priors and hence the trace."""
    sizes = [rnd.randint(4, 6), rnd.randint(4, 5), rnd.randint(4, 5)]
    prev = [[0.95, 0.9], [rnd.choice([0.3, 0.5]), rnd.choice([0.1, 0.4])], [rnd.choice([0.2, 0.45]), rnd.choice([0.05, 0.3])]]
    n_samp = rnd.randint(1, 2)
    if tied:
        sizes = [6, 6, 5]
        prev = [[1.0, 0.5], [0.5, 1.0], [0.2, 0.1]]
        n_samp = 2
    rows, crows, m = [], [], 0
    for c, size in enumerate(sizes):
        chroms = [str(rnd.randint(1, 3 if c == 2 else 12)) for _ in range(size)]
        if tied:
            chroms = [[str(j + 1) for j in range(size)], ["7"] * size, [str(8 + j) for j in range(size)]][c]
        for j in range(size):
            for s in range(n_samp):
                depth = rnd.randint(40, 150)
                alt = max(1, min(depth - 1, round(depth * prev[c][s] / 2 + rnd.uniform(-2, 2))))
                rows.append([f"m{m}", f"S{s}", depth - alt, alt, 1, 1, 2])
                crows.append([f"m{m}", f"S{s}", f"cl{c}", prev[c][s], chroms[j]])
            m += 1
    rnd.shuffle(rows)
    rnd.shuffle(crows)
    o = dict(DEFAULTS)
    o.update(seed=rnd.randrange(0, 2 ** 31), num_chains=k, proposal=rnd.choice(["semi-adapted", "bootstrap", "fully-adapted"]),
             outlier_prob=0.0, assign_loss_prob=True, num_particles=rnd.randint(3, 8), num_iters=rnd.randint(15, 40),
             concentration_update=rnd.random() < 0.5)
    return {"kind": "run", "rows": rows, "cluster_rows": crows, "opts": o, "variants": variants}


def cases(tier, rnd):
    out = []
    tail = [{"kind": "malformed"}, {"kind": "static"}]  # run cases first: a runtime failure makes the better replay
    hs = lambda: rnd.choice(["1", "random", str(rnd.randrange(2, 2 ** 32 - 1))])
    if tier == "quick":
        out.append(run_case(rnd, 1, [variant("0"), variant("random", cpus=1), variant(hs(), max_time=0.001)]))
        out.append(run_case(rnd, 2, [variant("0", finish=[0, 1]), variant(hs(), start=[1, 0], finish=[1, 0]), variant(hs(), oneworker=25)]))
        out.append(run_case(rnd, 3, [variant("0"), variant(hs(), cpus=2, finish=perm_not_identity(rnd, 3), sleep={"0": [0.5, 0]})]))
        out.append(cluster_case(rnd, 1, [variant("0"), variant("1"), variant("2"), variant("3"), variant("4")], tied=True))
        # many simultaneous outliers (string-named mutations): any iteration over a set / dict of data points or names
        # that feeds a draw or a sum shows up as a dependence on the hash seed
        out.append(run_case(rnd, 1, [variant(str(h)) for h in range(4)], n_mut=8, outlier_prob=0.4, num_iters=12,
                            subtree_update_prob=0.4))
        return out + tail
    out.append({"kind": "zero_chains"})
    for i in range(21):
        k = [1, 2, 3, 2, 4, 1, 3][i % 7]
        vs = [variant("0")]
        if k == 1:
            vs.append(variant(hs(), cpus=1))
            vs.append(variant("random"))
            vs.append(variant(hs(), max_time=rnd.choice([0.001, 0.5, 3.0])))
        else:
            ident = list(range(k))
            vs[0] = variant("0", finish=ident)
            vs.append(variant(hs(), start=perm_not_identity(rnd, k), finish=perm_not_identity(rnd, k)))
            vs.append(variant("random", cpus=rnd.choice([1, 2]), finish=perm_not_identity(rnd, k),
                              sleep={str(rnd.randrange(k)): [rnd.choice([0.3, 1.0]), rnd.choice([0, 0.5])]}))
            if i % 2:
                vs.append(variant(hs(), max_time=rnd.choice([0.001, 2.0]), finish=perm_not_identity(rnd, k)))
            else:
                vs.append(variant(hs(), oneworker=45))
        over = {}
        if i % 3 == 0:
            over["subtree_update_prob"] = 0.4
        if i % 4 == 1:
            over["thin"] = 2
        if i % 5 == 2:
            over["num_samples_data_point"], over["num_samples_prune_regraph"] = 2, 0
        over["num_iters"] = rnd.randint(15, 60)
        out.append(run_case(rnd, k, vs, n_mut=rnd.randint(3, 8), **over))
    for op in (0.3, 0.5):
        out.append(run_case(rnd, 1, [variant(str(h)) for h in range(5)], n_mut=rnd.randint(7, 10), outlier_prob=op,
                            num_iters=rnd.randint(15, 30), subtree_update_prob=rnd.choice([0.0, 0.5])))
    out.append(run_case(rnd, 2, [variant(str(h), finish=[0, 1]) for h in range(3)], n_mut=8, outlier_prob=0.4, num_iters=15))
    out.append(cluster_case(rnd, 1, [variant("0"), variant("random", cpus=1), variant(hs())]))
    out.append(cluster_case(rnd, 2, [variant("0", finish=[0, 1]), variant("random", start=[1, 0], finish=[1, 0])]))
    out.append(cluster_case(rnd, 1, [variant(str(h)) for h in range(8)], tied=True))
    out.append(cluster_case(rnd, 2, [variant(str(h), finish=[0, 1]) for h in range(5)], tied=True))
    return out + tail


# --------------------------------------------------------------------------------- running the CLI
def cli_args(o, in_file, out_file, max_time, cluster_file=None):
    a = ["run", "-i", in_file, "-o", out_file]
    if cluster_file:
        a += ["-c", cluster_file]
    a.append("--assign-loss-prob" if o["assign_loss_prob"] else "--no-assign-loss-prob")
    for key in ("burnin", "num_iters", "thin", "num_chains", "density", "outlier_prob", "proposal", "concentration_value",
                "grid_size", "num_particles", "num_samples_data_point", "num_samples_prune_regraph", "subtree_update_prob",
                "precision", "print_freq", "resample_threshold", "seed", "low_loss_prob", "high_loss_prob"):
        a += ["--" + key.replace("_", "-"), str(o[key])]
    a.append("--concentration-update" if o["concentration_update"] else "--no-concentration-update")
    if max_time is not None:
        a += ["--max-time", str(max_time)]
    return a


def cluster_file(in_file):
    f = os.path.join(os.path.dirname(in_file), "clusters.tsv")
    return f if os.path.exists(f) else None


def child_env(extra_path=None):
    env = dict(os.environ)
    parts = [p for p in [extra_path] + env.get("PYTHONPATH", "").split(os.pathsep) if p]
    env["PYTHONPATH"] = os.pathsep.join(parts)
    env["PYTHONDONTWRITEBYTECODE"] = "1"
    env.pop("PHYCLONE_VERIF_C18", None)
    return env


def pick_cpus(n, salt):
    avail = sorted(os.sched_getaffinity(0)) if hasattr(os, "sched_getaffinity") else [0]
    start = salt % len(avail)
    return [avail[(start + j) % len(avail)] for j in range(min(n, len(avail)))]


def run_variant(work, idx, case, v, in_file, result):
    o = case["opts"]
    vdir = os.path.join(work, f"v{idx}")
    os.makedirs(vdir)
    out_file = os.path.join(vdir, "trace.pkl.gz")
    env = child_env(INJECT)
    env["PYTHONHASHSEED"] = v["hashseed"]
    spec = {"dir": vdir, "timeout": 45, "start": v["start"], "finish": v["finish"], "sleep": v["sleep"],
            "cpus": pick_cpus(v["cpus"], o["seed"] + idx) if v["cpus"] else None, "oneworker": v.get("oneworker")}
    env["PHYCLONE_VERIF_C18"] = json.dumps(spec)
    cmd = [sys.executable, "-c", "import sys; from phyclone.cli import main; sys.exit(main())"] + cli_args(o, in_file, out_file, v["max_time"], cluster_file(in_file))
    if case.get("api"):
        # library entry point phyclone.run.run(...) with the option values as they are (the command line clamps some of them,
        # e.g. burnin >= 1; a library caller can pass burnin = 0)
        kw = {k: o[k] for k in DEFAULTS}
        kw.update(in_file=in_file, out_file=out_file, cluster_file=cluster_file(in_file))
        if v["max_time"] is not None:
            kw["max_time"] = v["max_time"]
        cmd = [sys.executable, "-c", "import json, sys; from phyclone.run import run; run(**json.loads(sys.argv[1]))", json.dumps(kw)]
    t0 = time.time()
    try:
        p = subprocess.run(cmd, cwd=vdir, env=env, stdout=subprocess.PIPE, stderr=subprocess.PIPE, text=True, timeout=RUN_TIMEOUT)
        rc, so, se = p.returncode, p.stdout, p.stderr
    except subprocess.TimeoutExpired as e:
        rc, so, se = -999, str(e.stdout or ""), "timeout"
    r = {"rc": rc, "stderr": se[-1500:], "wall": round(time.time() - t0, 1), "cpus": spec["cpus"]}
    r["finished"] = [int(x) for x in re.findall(r"^Finished chain (\d+)", so, flags=re.M)]
    marks = {}
    for f in os.listdir(vdir):
        if f.startswith(("start_", "finish_")):
            try:
                marks[f] = json.load(open(os.path.join(vdir, f)))
            except ValueError:
                pass
    r["marks"] = marks
    if rc == 0 and os.path.exists(out_file):
        r["results"] = c18_ref.load_results(out_file)
    result[idx] = r


def run_ref(work, case, in_file, result):
    spec = {"opts": case["opts"], "in_file": in_file, "cluster_file": cluster_file(in_file)}
    sp, op = os.path.join(work, "ref_spec.json"), os.path.join(work, "ref_out.json")
    json.dump(spec, open(sp, "w"))
    env = child_env()
    env["PYTHONHASHSEED"] = "random"
    try:
        p = subprocess.run([sys.executable, "-m", "harness.inject_c18.c18_ref", sp, op], cwd=ROOT, env=env,
                           stdout=subprocess.PIPE, stderr=subprocess.PIPE, text=True, timeout=RUN_TIMEOUT)
        rc, se = p.returncode, p.stderr
    except subprocess.TimeoutExpired:
        rc, se = -999, "timeout"
    result["ref"] = {"rc": rc, "stderr": se[-1500:]}
    if rc == 0:
        result["ref"]["traces"] = json.load(open(op))


# ------------------------------------------------------------------------------------- comparison
def fnum(h):
    return float.fromhex(h)


def compare_traces(a, b, prefix=False):
    """(None, 0) when equal (or `b` is a prefix of `a` when prefix=True); else ((field, index, detail), 0).
    Float fields are compared bit for bit (hex form): a seeded rerun on the same machine must reproduce them exactly;
    a difference within FLOAT_TOL relative is tagged `:roundoff` (order-of-summation dependence), it is still a failure."""
    roundoff = 0
    if prefix:
        if len(b) > len(a) or len(b) == 0:
            return ("length", len(b), {"full": len(a), "limited": len(b)}), 0
    elif len(a) != len(b):
        return ("length", min(len(a), len(b)), {"a": len(a), "b": len(b)}), 0
    for i, (x, y) in enumerate(zip(a, b)):
        for field in ("iter", "tree", "labels", "names"):
            if x[field] != y[field]:
                return (field, i, {"a": x[field], "b": y[field]}), roundoff
        for field in ("alpha", "log_p_one"):
            if x[field] != y[field]:
                fa, fb = fnum(x[field]), fnum(y[field])
                small = math.isfinite(fa) and math.isfinite(fb) and abs(fa - fb) <= FLOAT_TOL * max(1.0, abs(fa))
                return (field + (":roundoff" if small else ""), i, {"a": fa, "b": fb, "a_hex": x[field], "b_hex": y[field]}), roundoff
    return None, roundoff


def marker_order(r, prefix):
    """chain numbers in the order in which the workers wrote their start / finish markers"""
    return [c for _, c in sorted((m["t"], m["chain"]) for nm, m in r["marks"].items() if nm.startswith(prefix))]


def describe(v):
    return {k: v[k] for k in ("hashseed", "cpus", "start", "finish", "sleep", "max_time", "oneworker") if v.get(k) is not None}


def check(ctx, case):
    kind = case["kind"]
    ctx.stat("kind_" + kind)
    if kind == "static":
        return check_static(ctx, case)
    if kind == "malformed":
        return check_malformed(ctx, case)
    if kind == "zero_chains":
        return check_zero_chains(ctx, case)
    return check_run(ctx, case)


def check_run(ctx, case):
    o, variants = case["opts"], case["variants"]
    k = o["num_chains"]
    work = tempfile.mkdtemp(prefix="c18_")
    try:
        in_file = os.path.join(work, "in.tsv")
        with open(in_file, "w") as fh:
            fh.write("\t".join(["mutation_id", "sample_id", "ref_counts", "alt_counts", "major_cn", "minor_cn", "normal_cn"]) + "\n")
            for r in case["rows"]:
                fh.write("\t".join(str(x) for x in r) + "\n")
        if case.get("cluster_rows"):
            ctx.stat("cluster_file_and_assign_loss_prob")
            with open(os.path.join(work, "clusters.tsv"), "w") as fh:
                fh.write("\t".join(["mutation_id", "sample_id", "cluster_id", "cellular_prevalence", "chrom"]) + "\n")
                for r in case["cluster_rows"]:
                    fh.write("\t".join(str(x) for x in r) + "\n")
        res = {}
        threads = [threading.Thread(target=run_ref, args=(work, case, in_file, res))]
        threads += [threading.Thread(target=run_variant, args=(work, i, case, v, in_file, res)) for i, v in enumerate(variants)]
        for t in threads:
            t.start()
        for t in threads:
            t.join()
    finally:
        shutil.rmtree(work, ignore_errors=True)

    ctx.stat(f"chains_{k}")
    ctx.stat("proposal_" + o["proposal"])
    ctx.stat("outliers_on" if (o["outlier_prob"] > 0 or o["assign_loss_prob"]) else "outliers_off")
    ctx.stat("conc_update_on" if o["concentration_update"] else "conc_update_off")
    ctx.stat(f"mutations_{len({r[0] for r in case['rows']})}")
    if o["subtree_update_prob"] > 0:
        ctx.stat("subtree_updates")

    site = "phyclone/run.py:run"
    usable = {}
    for i, v in enumerate(variants):
        r = res.get(i)
        ctx.stat("cli_runs")
        ctx.stat("hashseed_" + (v["hashseed"] if v["hashseed"] in ("0", "1", "random") else "other"))
        if v["cpus"]:
            ctx.stat(f"pinned_to_{v['cpus']}_cpu")
        if r is None or r["rc"] != 0 or "results" not in r:
            ctx.corr_fail(case, f"execution {i} of the real CLI failed", {"variant": describe(v), "rc": r and r["rc"], "stderr": r and r["stderr"]})
            continue
        usable[i] = r
        for nm, m in r["marks"].items():
            for w in m.get("waited", []):
                ctx.stat("barrier_timed_out" if w["timed_out"] else "barrier_honoured")
        fin = r["finished"]
        if k > 1:
            ctx.stat("collected_in_chain_order" if fin == sorted(fin) else "collected_in_permuted_order")
            mf, ms = marker_order(r, "finish_"), marker_order(r, "start_")
            ctx.stat("workers_finished_in_chain_order" if mf == sorted(mf) else "workers_finished_in_permuted_order")
            ctx.stat("workers_started_in_chain_order" if ms == sorted(ms) else "workers_started_in_permuted_order")
            for want, got, nm in ((v["finish"], mf, "finish"), (v["start"], ms, "start")):
                if want:
                    ctx.stat(f"forced_{nm}_order_achieved" if want == got else f"forced_{nm}_order_missed")
            pids = {m["pid"] for nm, m in r["marks"].items() if nm.startswith("start_")}
            ctx.stat("worker_processes_distinct" if len(pids) == k else "worker_processes_shared")
            if v.get("oneworker"):
                ctx.stat("one_worker_ran_all_chains" if len(pids) == 1 else "one_worker_schedule_missed")
        # --- direct oracle (a): one entry per chain, stored under the number it carries
        keys = [e[0] for e in r["results"]]
        if sorted(keys) != list(range(k)):
            ctx.oracle_fail(case, f"results of execution {i} do not have exactly the keys 0..{k - 1}", site, "result-keys", {"keys": keys, "variant": describe(v)})
        for key, carried, _, _ in r["results"]:
            if key != carried:
                ctx.oracle_fail(case, f"execution {i}: result stored under key {key} carries chain number {carried}", site, "key-vs-chain-num",
                                {"variant": describe(v), "completion": fin})

    # --- direct oracle (b): same seed => same per-chain traces, whatever hash seed / pinning / start and finish order
    full = [i for i in usable if variants[i]["max_time"] is None]
    limited = [i for i in usable if variants[i]["max_time"] is not None]
    roundoff_total = 0
    if full:
        b0 = full[0]
        base = {e[0]: e[2] for e in usable[b0]["results"]}
        base_samples = {e[0]: e[3] for e in usable[b0]["results"]}
        for i in full[1:] + limited:
            pref = variants[i]["max_time"] is not None
            for key, _, tr, smp in usable[i]["results"]:
                if key not in base:
                    continue
                if smp != base_samples[key]:
                    ctx.oracle_fail(case, f"chain {key}: same seed, different sample order in the result", site, "samples-differ",
                                    {"executions": [describe(variants[b0]), describe(variants[i])], "a": base_samples[key], "b": smp})
                    break
                diff, ro = compare_traces(base[key], tr, prefix=pref)
                roundoff_total += ro
                ctx.stat("prefix_checks" if pref else "trace_comparisons")
                if pref:
                    ctx.stat("prefix_proper" if len(tr) < len(base[key]) else "prefix_full_length")
                if diff is not None:
                    field, at, detail = diff
                    what = (f"chain {key}: time-limited trace is not a prefix of the unlimited one" if pref else
                            f"chain {key}: same seed, different trace") + f" (first difference: {field} at entry {at})"
                    ctx.oracle_fail(case, what, site, ("prefix:" if pref else "trace-differs:") + field,
                                    {"executions": [describe(variants[b0]), describe(variants[i])], "completion": [usable[b0]["finished"], usable[i]["finished"]],
                                     "entry": at, "difference": detail})
                    break
    if roundoff_total:
        ctx.stat("float_roundoff_only_differences", roundoff_total)

    # --- correspondence: sequential in-process reference through the model's wiring
    ref = res.get("ref", {})
    distinct_trees = 0
    chains_differ = True
    gens_distinct = False
    if ref.get("rc") != 0:
        ctx.corr_fail(case, "sequential reference failed", ref.get("stderr"))
    else:
        tr = ref["traces"]
        body = {g: c18_ref.digest(t["trace"]) for g, t in tr.items()}
        for g, t in tr.items():
            want = 0 if g == "main" else int(g[1:])
            if t["chain_num"] != want:
                ctx.oracle_fail(case, f"run_phyclone_chain called with chain_num {want} returns chain_num {t['chain_num']}",
                                "phyclone/run.py:run_phyclone_chain", "chain-num-not-carried")
        ctx.stat("main_and_first_child_coincide" if body["main"] == body["c0"] else "main_and_first_child_differ")
        gens_distinct = len(set(body.values())) == len(body)
        for i in (full if ctx.lean is not None else []):
            r = usable[i]
            ord_ = r["finished"] if sorted(r["finished"]) == list(range(k)) else list(range(k))
            ans = ctx.ask({"op": "chains", "k": k, "ord": ord_, "body": body})
            model = sorted((key, cn, tok) for key, cn, _, tok in ans["results"])
            real = sorted((key, cn, c18_ref.digest(t)) for key, cn, t, _ in r["results"])
            ctx.stat("model_comparisons")
            if model != real:
                gens = {key: g for key, _, g, _ in ans["results"]}
                bad = [key for key, _, t, _ in r["results"] if gens.get(key) is None or c18_ref.digest(t) != body[gens[key]]]
                detail = {"variant": describe(variants[i]), "keys_off": bad, "model_generators": gens}
                for key in bad[:1]:
                    if key in gens:
                        d, _ = compare_traces(tr[gens[key]]["trace"], dict((e[0], e[2]) for e in r["results"])[key])
                        detail["first_difference"] = d
                        matches = [g for g, dg in body.items() if dg == c18_ref.digest(dict((e[0], e[2]) for e in r["results"])[key])]
                        detail["real_trace_equals_reference_of"] = matches
                ctx.corr_fail(case, "results dict differs from the model's (chain i = run_phyclone_chain on generator i, sequential reference)", detail)
            if [e[0] for e in r["results"]] == [e[0] for e in ans["results"]]:
                ctx.stat("dict_insertion_order_as_model")
        some = tr["main"]["trace"] if k == 1 else tr["c0"]["trace"]
        distinct_trees = max(len({json.dumps(e["tree"]) for e in t["trace"]}) for t in tr.values())
        if k > 1:
            ds = [body[f"c{i}"] for i in range(k)]
            chains_differ = len(set(ds)) == k
            ctx.stat("chains_pairwise_distinct" if chains_differ else "chains_coincide")
            # --- direct oracle (c): every chain has its own generator.  The sequential reference shows that the trace
            # depends on the generator (all spawned children give different traces); two chains of one run with the very
            # same trace are then not independent replicates (e.g. every worker got a copy of the main generator).
            if chains_differ:
                for i in full:
                    dg = {}
                    for key, _, t, _ in usable[i]["results"]:
                        dg.setdefault(c18_ref.digest(t), []).append(key)
                    same = [sorted(v) for v in dg.values() if len(v) > 1]
                    if same:
                        ctx.oracle_fail(case, f"chains {same[0]} of one {k}-chain run produced the same trace: they do not have generators of their own",
                                        site, "chains-identical", {"variant": describe(variants[i]), "identical": same})
                        break
        ctx.stat(f"trace_len_{len(some)}")
    permuted = any(marker_order(usable[i], "finish_") != sorted(marker_order(usable[i], "finish_")) for i in usable)
    nontrivial = distinct_trees >= 2 and len(full) >= 2 and gens_distinct and (k == 1 or (chains_differ and permuted))
    ctx.done(case, nontrivial=nontrivial,
             sample={"opts": {x: o[x] for x in ("seed", "num_chains", "proposal", "outlier_prob", "num_iters", "num_particles")},
                     "variants": [describe(v) for v in variants],
                     "collected_orders": [usable[i]["finished"] for i in sorted(usable)],
                     "worker_finish_orders": [marker_order(usable[i], "finish_") for i in sorted(usable)],
                     "wall_s": [usable[i]["wall"] for i in sorted(usable)], "distinct_trees": distinct_trees})


SEARCH_BUDGET = 240


def search(ctx, failed_cases, rnd, deadline):
    """Oracle-only (no model): re-execute the run cases on which the correspondence broke under more hash seeds and
    forced schedules, then fresh cases, looking for two executions with the same seed and different traces."""
    todo = [c for c in failed_cases if isinstance(c, dict) and c.get("kind") == "run"][:2]
    seen = set()
    fresh = 0
    while time.time() < deadline - 60 and not ctx.oracle_failures:
        if todo:
            base = todo.pop(0)
            key = json.dumps(base, sort_keys=True)
            if key in seen:
                continue
            seen.add(key)
        elif fresh < 2:
            fresh += 1
            base = run_case(rnd, rnd.choice([2, 3]), [])
        else:
            break
        k = base["opts"]["num_chains"]
        vs = [variant("0"), variant("1"), variant("2"), variant("random"), variant("random")]
        if k > 1:
            for v in vs[1:]:
                v["finish"] = perm_not_identity(rnd, k)
        case = dict(base, variants=vs)
        check_run(ctx, case)


# ------------------------------------------------------------------------------ malformed requests
def check_malformed(ctx, case):
    from ..leanio import ModelError

    bad = [
        {"op": "chains", "k": 0, "ord": [], "body": {}},
        {"op": "chains", "k": 2, "ord": [0, 0], "body": {"c0": "a", "c1": "b"}},
        {"op": "chains", "k": 2, "ord": [0, 1, 2], "body": {"c0": "a", "c1": "b"}},
        {"op": "chains", "k": 2, "ord": [0, 1], "body": {"c0": "a"}},
        {"op": "chains", "k": 2, "body": {"c0": "a", "c1": "b"}},
        {"op": "chainz", "k": 2},
    ]
    for req in bad:
        try:
            ans = ctx.ask(req)
            ctx.corr_fail(case, "model accepted a malformed request", {"req": req, "ans": ans})
        except ModelError:
            ctx.stat("model_rejections")
    ans = ctx.ask({"op": "chains", "k": 3, "ord": [1, 2, 0], "body": {"main": "m", "c0": "a", "c1": "b", "c2": "c"}})
    if sorted(ans["results"]) != [[0, 0, "c0", "a"], [1, 1, "c1", "b"], [2, 2, "c2", "c"]] or [r[0] for r in ans["results"]] != [1, 2, 0]:
        ctx.corr_fail(case, "model answer on a fixed request changed", ans)
    ctx.done(case, nontrivial=False)


def check_zero_chains(ctx, case):
    """run(num_chains=0) called directly: ProcessPoolExecutor(max_workers=0) raises; the model rejects k = 0."""
    from ..leanio import ModelError

    work = tempfile.mkdtemp(prefix="c18_")
    try:
        in_file = os.path.join(work, "in.tsv")
        with open(in_file, "w") as fh:
            fh.write("mutation_id\tsample_id\tref_counts\talt_counts\tmajor_cn\tminor_cn\tnormal_cn\nm0\tS0\t20\t10\t1\t1\t2\nm1\tS0\t30\t5\t1\t1\t2\n")
        code = ("import sys, phyclone.run as R\n"
                "try:\n    R.run(sys.argv[1], sys.argv[2], num_chains=0, seed=1, num_iters=2, num_particles=2, grid_size=11, precision=400)\n"
                "except Exception as e:\n    print('RAISED', type(e).__name__)\nelse:\n    print('RETURNED')\n")
        p = subprocess.run([sys.executable, "-c", code, in_file, os.path.join(work, "o.pkl.gz")], env=child_env(), cwd=work,
                           stdout=subprocess.PIPE, stderr=subprocess.PIPE, text=True, timeout=RUN_TIMEOUT)
        raised = "RAISED" in p.stdout
    finally:
        shutil.rmtree(work, ignore_errors=True)
    try:
        ctx.ask({"op": "chains", "k": 0, "ord": [], "body": {}})
        model_rejects = False
    except ModelError:
        model_rejects = True
    if raised != model_rejects:
        ctx.corr_fail(case, "num_chains = 0: code and model disagree on rejection", {"code_raised": raised, "model_rejects": model_rejects, "out": p.stdout[-300:], "err": p.stderr[-500:]})
    ctx.done(case, nontrivial=False)


# ------------------------------------------------------------------------------------ static scan
SAMPLER_PARTS = ("mcmc", "smc", "tree", "data", "utils")
NP_RANDOM_OK = {"default_rng", "RandomState", "Generator", "SeedSequence", "BitGenerator", "PCG64", "PCG64DXSM", "Philox", "SFC64", "MT19937"}


class Scan(ast.NodeVisitor):
    def __init__(self, rel):
        self.rel = rel
        self.stack = []
        self.out = []  # (kind, location, text)
        self.np_names, self.np_random_names, self.std_random, self.time_names = {"np", "numpy"}, set(), set(), set()
        self.from_np_random = {}
        self.from_time = set()
        self.set_attrs = set()

    def loc(self, node):
        fn = ".".join(self.stack) or "<module>"
        return f"{self.rel}:{fn}:{node.lineno}"

    def add(self, kind, node):
        try:
            text = ast.unparse(node)[:80]
        except Exception:
            text = ""
        self.out.append((kind, self.loc(node), text))

    def visit_Import(self, node):
        for a in node.names:
            nm = a.asname or a.name.split(".")[0]
            if a.name == "random":
                self.std_random.add(nm)
                self.add("stdlib_random_import", node)
            elif a.name in ("secrets", "uuid"):
                self.add("entropy_module_import", node)
            elif a.name == "numpy":
                self.np_names.add(nm)
            elif a.name == "numpy.random":
                (self.np_random_names if a.asname else self.np_names).add(nm)
            elif a.name in ("time", "datetime"):
                self.time_names.add(nm)

    def visit_ImportFrom(self, node):
        for a in node.names:
            nm = a.asname or a.name
            if node.module == "random":
                self.std_random.add(nm)
                self.add("stdlib_random_import", node)
            elif node.module in ("secrets", "uuid") or (node.module == "os" and a.name in ("urandom", "getrandom")):
                self.add("entropy_module_import", node)
            elif node.module == "numpy" and a.name == "random":
                self.np_random_names.add(nm)
            elif node.module == "numpy.random":
                self.from_np_random[nm] = a.name
                if a.name not in NP_RANDOM_OK:
                    self.add("np_random_module_function", node)
            elif node.module in ("time", "datetime"):
                self.from_time.add(nm)
                self.add("clock_use", node)

    def _scoped(self, node):
        self.stack.append(node.name)
        self.generic_visit(node)
        self.stack.pop()

    visit_FunctionDef = visit_AsyncFunctionDef = visit_ClassDef = _scoped

    def is_np_random(self, e):
        return (isinstance(e, ast.Attribute) and e.attr == "random" and isinstance(e.value, ast.Name) and e.value.id in self.np_names) or (
            isinstance(e, ast.Name) and e.id in self.np_random_names)

    def visit_Attribute(self, node):
        if self.is_np_random(node.value) and node.attr not in NP_RANDOM_OK:
            self.add("np_random_module_function", node)
        if isinstance(node.value, ast.Name) and node.value.id in self.std_random:
            self.add("stdlib_random_use", node)
        if isinstance(node.value, ast.Name) and node.value.id == "os" and node.attr in ("urandom", "getrandom"):
            self.add("os_entropy_use", node)
        if isinstance(node.value, ast.Name) and node.value.id in self.time_names and node.attr in (
                "time", "time_ns", "perf_counter", "perf_counter_ns", "monotonic", "monotonic_ns", "process_time", "now", "today", "datetime"):
            self.add("clock_use", node)
        self.generic_visit(node)

    def visit_Name(self, node):
        if isinstance(node.ctx, ast.Load) and (node.id in self.std_random and node.id != "random"):
            self.add("stdlib_random_use", node)

    def visit_Assign(self, node):
        if isinstance(node.value, (ast.Set, ast.SetComp)) or (isinstance(node.value, ast.Call) and isinstance(node.value.func, ast.Name) and node.value.func.id in ("set", "frozenset")):
            for t in node.targets:
                if isinstance(t, ast.Attribute):
                    self.set_attrs.add(t.attr)
                elif isinstance(t, ast.Name):
                    self.set_attrs.add(t.id)
        self.generic_visit(node)

    def visit_Call(self, node):
        f = node.func
        name = f.attr if isinstance(f, ast.Attribute) else f.id if isinstance(f, ast.Name) else None
        is_default_rng = (isinstance(f, ast.Attribute) and f.attr in ("default_rng", "RandomState") and self.is_np_random(f.value)) or (
            isinstance(f, ast.Name) and self.from_np_random.get(f.id) in ("default_rng", "RandomState"))
        if is_default_rng:
            unseeded = (not node.args and not node.keywords) or (node.args and isinstance(node.args[0], ast.Constant) and node.args[0].value is None)
            self.add("default_rng_unseeded" if unseeded else "default_rng_seeded", node)
        if name == "rvs" and not any(kw.arg == "random_state" for kw in node.keywords):
            self.add("scipy_rvs_without_random_state", node)
        if isinstance(f, ast.Name) and f.id == "hash":
            inside_hash = bool(self.stack) and self.stack[-1] == "__hash__"
            self.add("hash_in___hash__" if inside_hash else "hash_elsewhere", node)
        if isinstance(f, ast.Name) and f.id in self.from_np_random and self.from_np_random[f.id] not in NP_RANDOM_OK:
            self.add("np_random_module_function", node)
        self.generic_visit(node)

    def _iter(self, it):
        e = it
        if isinstance(e, ast.Call) and isinstance(e.func, ast.Name) and e.func.id in ("list", "tuple", "enumerate", "iter") and e.args:
            e = e.args[0]
        if isinstance(e, (ast.Set, ast.SetComp)) or (isinstance(e, ast.Call) and isinstance(e.func, ast.Name) and e.func.id in ("set", "frozenset")):
            self.add("iteration_over_set_expression", it)
        elif (isinstance(e, ast.Attribute) and e.attr in self.set_attrs) or (isinstance(e, ast.Name) and e.id in self.set_attrs):
            self.add("iteration_over_set_valued_name", it)

    def visit_For(self, node):
        self._iter(node.iter)
        self.generic_visit(node)

    def visit_comprehension(self, node):
        self._iter(node.iter)
        self.generic_visit(node)


def seeded_branch_ok(tree):
    """instantiate_and_seed_RNG: `if seed is not None: default_rng(seed) else: default_rng()` — the only allowed unseeded generator."""
    for fn in ast.walk(tree):
        if isinstance(fn, ast.FunctionDef) and fn.name == "instantiate_and_seed_RNG":
            for st in fn.body:
                if isinstance(st, ast.If) and isinstance(st.test, ast.Compare) and len(st.test.ops) == 1 and isinstance(st.test.ops[0], ast.IsNot):
                    seeded = [c for b in st.body for c in ast.walk(b) if isinstance(c, ast.Call) and getattr(c.func, "attr", "") == "default_rng"]
                    if seeded and all(c.args and isinstance(c.args[0], ast.Name) and c.args[0].id == "seed" for c in seeded):
                        return {c.lineno for b in st.orelse for c in ast.walk(b) if isinstance(c, ast.Call)}
    return set()


def check_static(ctx, case):
    import phyclone

    pkg = os.path.dirname(os.path.abspath(phyclone.__file__))
    findings = []
    nfiles = 0
    for d, dirs, files in os.walk(pkg):
        dirs[:] = [x for x in dirs if x not in ("tests", "__pycache__")]
        for f in sorted(files):
            if not f.endswith(".py"):
                continue
            path = os.path.join(d, f)
            rel = os.path.relpath(path, os.path.dirname(pkg))
            tree = ast.parse(open(path).read(), filename=path)
            nfiles += 1
            sc = Scan(rel)
            # two passes so that set-valued attribute names assigned later in a file are known
            sc.visit(tree)
            known = set(sc.set_attrs)
            sc = Scan(rel)
            sc.set_attrs = known
            sc.visit(tree)
            allowed_lines = seeded_branch_ok(tree) if rel.replace(os.sep, "/") == "phyclone/run.py" else set()
            for kind, loc, text in sorted(set(sc.out)):
                line = int(loc.rsplit(":", 1)[1])
                if kind == "default_rng_unseeded" and line in allowed_lines:
                    kind = "default_rng_unseeded_allowed_seed_is_None"
                findings.append((kind, loc, text))
    ctx.stat("static_files_scanned", nfiles)
    fatal = {"np_random_module_function", "stdlib_random_import", "stdlib_random_use", "default_rng_unseeded", "scipy_rvs_without_random_state",
             "entropy_module_import", "os_entropy_use"}
    for kind, loc, text in findings:
        ctx.stat("static_" + kind)
        ctx.stat(f"static@{kind}@{loc.rsplit(':', 1)[0]}")
        parts = loc.replace(os.sep, "/").split("/")
        in_sampler = len(parts) >= 2 and (parts[1] in SAMPLER_PARTS or parts[1].startswith("run.py"))
        if kind in fatal and in_sampler:
            ctx.oracle_fail(case, f"ambient (unseeded) randomness in sampler code: {kind}: `{text}` at {loc}", loc.rsplit(":", 1)[0], "ambient-randomness:" + kind,
                            {"location": loc, "code": text})
    if not any(k == "default_rng_seeded" for k, _, _ in findings):
        ctx.corr_fail(case, "static scan found no seeded default_rng call (scan broken or seeding removed)", None)
    ctx.done(case, nontrivial=True, sample={"static_findings": [f"{k} {l} `{t}`" for k, l, t in findings][:60]})
