"""C04 — data-point, prune-regraft and subtree moves preserve the log_p_one posterior."""
import json
from fractions import Fraction

import numpy as np

from ..common import DataSet, gen_values, build_tree, all_canon_trees, make_tree_dist, extract
from ..enumrng import run_all, TooManyLeaves
from ..common import install_tie_probe, tie_reset, TIE
from phyclone.run import setup_kernel, setup_samplers, _run_main_sampler
from phyclone.utils.dev import clear_proposal_dist_caches

ID = "C04"
LEVEL = "proof"
THEOREMS = ["gibbs_block_invariant", "sweep_invariant", "categorical_gibbs_reversible", "dpStep_invariant",
            "dataPointMove_invariant", "pruneRegraft_invariant", "move_sequence_invariant",
            # the random-subtree move given the region (the unconditional statement is false: known finding F7)
            "csmc_corrected_invariant", "csmc_corrected_invariant_final_resample", "corrected_kernel_is_modified_target",
            "subtreeMove_factors", "subtree_given_exec", "subtree_conditional_invariant_abstract",
            "subtree_conditional_invariant_E", "graftBack_restrict", "subtree_conditional_invariant",
            "subtree_region_ok", "subtree_conditional_invariant_at_region",
            # the whole sweep (particle Gibbs, data-point scans, prune-regraft moves) on one state space
            "sweep_state_space", "sweep_kernels_invariant", "full_sweep_invariant_E", "full_sweep_invariant",
            "full_sweep_invariant_c01", "chain_invariant"]
BUDGET = {"quick": 170, "thorough": 1500}
RULE = ("moves = data-point Gibbs scan, prune-regraft, random-subtree particle Gibbs, all built by run.setup_samplers; "
        "configurations = (data set of 2..3 points (4 sampled in thorough), alpha, outlier modelling off/on, and for the subtree "
        "move proposal / N / threshold); for EVERY start tree the exact transition row of the real sample_tree (enumerating "
        "generator) is compared with the Lean model's row; direct oracle: pi K = pi on the assembled matrix (data-point and "
        "prune-regraft: every configuration; subtree move: pinned instances only, whose bias is the known finding F7). "
        "Plus prune-regraft single rows on 7-10 clones: row vs the model and vs the Gibbs conditional recomputed independently over "
        "every attachment point.  Start trees are named bottom-up (SMC placements) and in preorder (relabel_nodes, as the run loop "
        "leaves them).  "
        "Move kind 'sweep' (the composition the capstone theorem full_sweep_invariant is about): the real run._run_main_sampler is "
        "driven for ONE iteration (num_iters = 1, thin = 1, concentration update off, subtree_update_prob = 0, stub timer; kernel "
        "and samplers from setup_kernel / setup_samplers) under the enumerating generator - every draw of the iteration, the "
        "`rng.random() < subtree_update_prob` draw included - and the tree is read off the last trace entry (decoded from its "
        "edge list / node_data without phyclone code; the first entry must be the start tree); its exact law from EVERY start "
        "tree is compared (1e-10) with the model's Sweep.sweepModel r (Sweep.mvOf r) k1 k2 (driver op `sweep`), and the assembled "
        "matrix goes through the same pi K = pi oracle.  Configurations: 2 data points, N = 2, threshold drawn from {0, 1/2, "
        "7/10}, the three proposals x outliers off/on x all (k1, k2) in {0,1,2}^2 (54 matrices); 3 data points (needed for the "
        "ORDER of the two loops: on 2 points the data-point scan and the prune-regraft move act on disjoint sets of trees and "
        "commute): quick - N = 2 with (k1, k2) = (0, 1), and N = 1 (particle Gibbs returns its start tree) with (1, 1), "
        "outliers off and on; thorough - N = 2 with (0,1), (1,0), (1,1) for the three proposals (outliers off) and (0,1), (1,0) "
        "with outliers, N = 1 with (1,1), (1,2) for the three proposals x outliers off/on and (2,1).  "
        "Non-trivial: start tree with >= 2 data points; distinct by digest.")
TRUSTED = ["numpy Generator draws replaced by exact enumeration"]
ASSUMPTIONS = ["exact arithmetic in the theorems"]
MAX_LEAVES = 1_500_000
SUBTREE_SITE = "mcmc.particle_gibbs.ParticleGibbsSubtreeSampler.sample_tree"

# pinned instances for the subtree move (known finding F7): fixed data, never drawn from the seed
PINNED = [
    {"pin": "F7-a", "n": 3, "outliers": False, "kind": "fully-adapted", "alpha": "3/10", "N": 2, "theta": "1/2",
     "vals": [[["1/2", "1/4", "1/1"]], [["3/4", "1/8", "1/2"]], [["1/4", "1/1", "3/8"]]]},
    {"pin": "F7-b", "n": 3, "outliers": True, "kind": "bootstrap", "alpha": "1/1", "N": 2, "theta": "1/2",
     "vals": [[["1/2", "1/4", "1/1"]], [["3/4", "1/8", "1/2"]], [["1/4", "1/1", "3/8"]]]},
]


SWEEP_SITE = "run._run_main_sampler"


def tkey(f, o):
    return json.dumps([f, o], separators=(",", ":"))


def cases(tier, rnd):
    out = []
    cfgs = []
    for move in ("dp", "prg"):
        for n in (2, 3):
            for outl in (False, True):
                reps = 1 if tier == "quick" else 3
                for _ in range(reps):
                    cfgs.append({"move": move, "n": n, "outliers": outl, "kind": "semi-adapted", "N": 2, "theta": "1/2"})
        if tier == "thorough":
            cfgs.append({"move": move, "n": 4, "outliers": False, "kind": "semi-adapted", "N": 2, "theta": "1/2"})
    # random subtree-move configurations: correspondence and well-formedness only
    for kind in ("bootstrap", "semi-adapted", "fully-adapted"):
        for outl in (False, True):
            cfgs.append({"move": "subtree", "n": 2 if (tier == "quick" and outl) else 3 if not outl else 2, "outliers": outl, "kind": kind, "N": 2,
                         "theta": rnd.choice(["0/1", "1/2", "7/10"])})
    if tier == "thorough":
        cfgs += [{"move": "subtree", "n": 3, "outliers": True, "kind": k, "N": 2, "theta": "1/2"} for k in ("bootstrap", "fully-adapted")]
    gid = 0
    for c in cfgs:
        S, G = (1, 3) if c["move"] == "subtree" else (rnd.randint(1, 2), rnd.randint(3, 5))
        vals = [gen_values(rnd, S, G, bits=3) for _ in range(c["n"])]
        ds = DataSet(vals, Fraction(1, 5) if c["outliers"] else Fraction(0))
        alpha = rnd.choice(["3/10", "1/1", "7/2"])
        states = all_canon_trees(c["n"], outliers=c["outliers"])
        # the run loop calls relabel_nodes() at the end of every sweep, so the moves see trees named in preorder
        # (top clone = 0) as well as trees named bottom-up by the SMC placements: both namings are exercised
        relabel = True if c["move"] == "subtree" else (gid % 2 == 1)
        for f, o in states:
            out.append(dict(c, group=f"g{gid}", nstates=len(states), data=ds.to_json(), alpha=alpha, start=[f, o], pin=None, relabel=relabel))
        gid += 1
    for p in PINNED:
        ds = DataSet([[[Fraction(x) for x in row] for row in v] for v in p["vals"]], Fraction(1, 5) if p["outliers"] else Fraction(0))
        states = all_canon_trees(p["n"], outliers=p["outliers"])
        for f, o in states:
            out.append({"move": "subtree", "n": p["n"], "outliers": p["outliers"], "kind": p["kind"], "N": p["N"], "theta": p["theta"],
                        "group": p["pin"], "nstates": len(states), "data": ds.to_json(), "alpha": p["alpha"], "start": [f, o], "pin": p["pin"],
                        "relabel": True})
    # prune-regraft on larger trees, one start tree at a time (the whole matrix is out of reach): the row is compared with
    # the model's and with the Gibbs conditional recomputed independently (every attachment point of every prunable clone)
    from ..common import random_canon_tree
    for i in range(6 if tier == "quick" else 40):
        n = rnd.randint(7, 10)
        vals = [gen_values(rnd, 1, 3, bits=3) for _ in range(n)]
        ds = DataSet(vals, Fraction(0))
        f, o = random_canon_tree(rnd, n, outliers=False)
        out.append({"move": "prg", "n": n, "outliers": False, "kind": "semi-adapted", "N": 2, "theta": "1/2", "group": f"big{i}", "nstates": 0,
                    "data": ds.to_json(), "alpha": rnd.choice(["3/10", "1/1", "7/2"]), "start": [f, o], "pin": None, "relabel": i % 2 == 1,
                    "single": True})
    # one whole iteration of the run loop (`_run_main_sampler`, subtree_update_prob = 0): the composition the capstone theorem
    # `full_sweep_invariant` is about.  k1 = num_samples_data_point, k2 = num_samples_prune_regraph.  (Generated last so that
    # the cases above are the same per seed as before these were added.)
    sw = []
    for kind in ("bootstrap", "semi-adapted", "fully-adapted"):
        for outl in (False, True):
            sw += [(2, kind, outl, k1, k2, 2, rnd.choice(["0/1", "1/2", "7/10"])) for k1 in (0, 1, 2) for k2 in (0, 1, 2)]
    # Three data points.  (On two, the data-point scan and the prune-regraft move act on disjoint sets of trees - the first only
    # moves points between a clone holding both and the outlier set, the second needs two clones - so they commute and their
    # ORDER in the loop is invisible there.)  N = 2: particle Gibbs followed by a prune-regraft move (quick), by a move of
    # either kind and by both (thorough: ~10^5 leaves per matrix).  N = 1 (`--num-particles 1`: the particle-Gibbs update returns its start tree, at
    # little cost): data-point scan then prune-regraft, so that the quick tier too sees their order and the hand-over between them.
    kinds = ["bootstrap", "semi-adapted", "fully-adapted"]
    if tier == "quick":
        sw += [(3, rnd.choice(kinds), False, 0, 1, 2, "1/2"), (3, rnd.choice(kinds), False, 1, 1, 1, "1/2"),
               (3, rnd.choice(kinds), True, 1, 1, 1, "1/2")]
    else:
        sw += [(3, kind, False, k1, k2, 2, "1/2") for kind in kinds for k1, k2 in ((0, 1), (1, 0), (1, 1))]
        sw += [(3, rnd.choice(kinds), True, k1, k2, 2, "1/2") for k1, k2 in ((0, 1), (1, 0))]
        sw += [(3, kind, outl, k1, k2, 1, "1/2") for kind in kinds for outl in (False, True) for k1, k2 in ((1, 1), (1, 2))]
        sw += [(3, rnd.choice(kinds), False, 2, 1, 1, "1/2")]
    for j, (n, kind, outl, k1, k2, N, th) in enumerate(sw):
        S, G = (rnd.randint(1, 2), rnd.randint(3, 5)) if n == 2 else (1, 3)
        ds = DataSet([gen_values(rnd, S, G, bits=3) for _ in range(n)], Fraction(1, 5) if outl else Fraction(0))
        alpha = rnd.choice(["3/10", "1/1", "7/2"])
        states = all_canon_trees(n, outliers=outl)
        for f, o in states:
            # a sweep is handed the tree the previous sweep (or the burn-in) relabelled; `get_single_node_tree`, the start after
            # `--burnin 0`, is in preorder too: mostly relabelled starts, every fourth configuration bottom-up names
            out.append({"move": "sweep", "n": n, "outliers": outl, "kind": kind, "N": N, "theta": th, "k1": k1, "k2": k2, "group": f"sw{j}",
                        "nstates": len(states), "data": ds.to_json(), "alpha": alpha, "start": [f, o], "pin": None, "relabel": j % 4 != 3})
    out.sort(key=lambda c: (c["move"] != "subtree", -c["n"]))
    return out


class StubTimer:
    """Stands in for `utils.Timer` in the run loop: no wall clock, so the time limit never fires."""
    elapsed = 0.0

    def __enter__(self):
        return self

    def __exit__(self, *a):
        return False


def trace_tree(entry, n):
    """(canonical forest, outliers) of the `tree` field of one trace entry, decoded without any phyclone code: clone
    name -> data points from `node_data`, edges from the edge list through `node_idx`."""
    from ..common import canon_forest

    d = entry["tree"]
    name_of = {i: nm for nm, i in d["node_idx"].items()}
    kids, has_parent = {}, set()
    for a, b in d["graph"]:
        kids.setdefault(name_of[a], []).append(name_of[b])
        has_parent.add(name_of[b])
    roots = [nm for nm in d["node_idx"] if nm not in has_parent]
    if len(roots) != 1:
        raise AssertionError(f"trace tree has {len(roots)} parentless nodes")
    dps = {nm: sorted(x.idx for x in v) for nm, v in d["node_data"].items()}
    outs = sorted(dps.get(-1, []))

    def go(nm):
        return [dps.get(nm, []), [go(c) for c in kids.get(nm, [])]]

    if dps.get(roots[0]):
        raise AssertionError("virtual root holds data")
    forest = canon_forest(go(roots[0])[1])
    if sorted(outs + [i for dd in _dps(forest) for i in dd]) != list(range(n)):
        raise AssertionError("data not conserved")
    return forest, outs


def sweep_row(case, ds, td):
    """Exact law of the tree recorded by ONE iteration of the real `run._run_main_sampler` (kernel and samplers from
    `setup_kernel` / `setup_samplers`, `subtree_update_prob = 0`, concentration update off, `thin = 1`), every random draw
    of the iteration enumerated - including the `rng.random() < subtree_update_prob` draw, which never fires."""
    import contextlib
    import io

    f, o = case["start"]
    sink = io.StringIO()

    def run(rng):
        clear_proposal_dist_caches()
        kernel = setup_kernel(float(ds.outlier_prob), case["kind"], rng, td)
        s = setup_samplers(kernel, case["N"], float(ds.outlier_prob), float(Fraction(case["theta"])), rng, td)
        t0 = build_tree(ds.real, f, o)
        if case.get("relabel"):
            t0.relabel_nodes()
        sink.seek(0)
        sink.truncate()
        with contextlib.redirect_stdout(sink):
            res = _run_main_sampler(False, ds.real, float("inf"), 1, case["k1"], case["k2"], 1, s, None, 1, StubTimer(), t0, td, 0,
                                    rng, 0.0)
        tr = res["trace"]
        if len(tr) != 2 or tr[0]["iter"] != 0 or tr[1]["iter"] != 0:
            raise AssertionError(f"one iteration with thin = 1 left {len(tr)} trace entries")
        if tkey(*trace_tree(tr[0], ds.n)) != tkey(f, o):
            raise AssertionError("first trace entry is not the start tree")
        return tkey(*trace_tree(tr[1], ds.n))

    row, leaves = {}, 0
    for p, r in run_all(run, MAX_LEAVES):
        row[r] = row.get(r, 0.0) + p
        leaves += 1
    return row, leaves


def real_row(case, ds, td):
    if case["move"] == "sweep":
        return sweep_row(case, ds, td)
    f, o = case["start"]
    which = {"dp": "dp_sampler", "prg": "prg_sampler", "subtree": "subtree_sampler"}[case["move"]]

    def run(rng):
        clear_proposal_dist_caches()
        kernel = setup_kernel(float(ds.outlier_prob), case["kind"], rng, td)
        s = setup_samplers(kernel, case["N"], float(ds.outlier_prob), float(Fraction(case["theta"])), rng, td)
        t0 = build_tree(ds.real, f, o)
        if case.get("relabel"):
            t0.relabel_nodes()
        t = getattr(s, which).sample_tree(t0)
        ff, oo = extract(t)
        if sorted(oo + [i for d in _dps(ff) for i in d]) != list(range(ds.n)):
            raise AssertionError("data not conserved")
        return tkey(ff, oo)

    row, leaves = {}, 0
    for p, r in run_all(run, MAX_LEAVES):
        row[r] = row.get(r, 0.0) + p
        leaves += 1
    return row, leaves


def prg_expected_row(ds, td, forest, outs):
    """What the property says the prune-regraft move does, recomputed on nested lists (no sampler code): choose a clone
    uniformly, prune its subtree, re-attach it below every remaining clone or at the top level with probability
    proportional to the fixed-root joint density."""
    import copy as _c
    from ..common import canon_forest

    paths = []

    def walk(lst, path):
        for i, node in enumerate(lst):
            paths.append(path + [i])
            walk(node[1], path + [i])

    walk(forest, [])
    K = len(paths)
    row = {}
    if K <= 1:
        return {tkey(canon_forest(forest), outs): 1.0}
    for path in paths:
        f2 = _c.deepcopy(forest)
        lst = f2
        for i in path[:-1]:
            lst = lst[i][1]
        sub = lst.pop(path[-1])
        places = []

        def collect(l):
            for node in l:
                places.append(node)
                collect(node[1])

        collect(f2)
        if not places:
            k = tkey(canon_forest(forest), outs)
            row[k] = row.get(k, 0.0) + 1.0 / K
            continue
        cands = []
        for j in range(len(places) + 1):
            f3 = _c.deepcopy(f2)
            pl = []

            def collect3(l):
                for node in l:
                    pl.append(node)
                    collect3(node[1])

            collect3(f3)
            (f3 if j == len(places) else pl[j][1]).append(_c.deepcopy(sub))
            cf = canon_forest(f3)
            cands.append((tkey(cf, outs), float(td.log_p_one(build_tree(ds.real, cf, outs)))))
        lps = np.array([c[1] for c in cands])
        w = np.exp(lps - lps.max())
        w /= w.sum()
        for (k, _), q in zip(cands, w):
            row[k] = row.get(k, 0.0) + q / K
    return row


def _dps(forest):
    for d, k in forest:
        yield d
        yield from _dps(k)


def check(ctx, case):
    ds = DataSet.from_json(case["data"])
    td = make_tree_dist(Fraction(case["alpha"]))
    f, o = case["start"]
    ctx.stat("move_" + case["move"])
    ctx.stat(f"n_{case['n']}_outliers_{case['outliers']}")
    install_tie_probe()
    tie_reset(Fraction(case["theta"]))
    try:
        row, leaves = real_row(case, ds, td)
    except TooManyLeaves:
        ctx.stat("rows_skipped_too_many_leaves")  # not judged; the configuration's matrix stays incomplete
        ctx.done(case, nontrivial=False, sample={"skipped": "too many leaves", "start": case["start"]})
        return
    ctx.stat("enumerated_leaves", leaves)
    if TIE["hit"]:
        # a resampling decision sat on the threshold: exact and float arithmetic may legitimately disagree
        ctx.stat("rows_skipped_threshold_tie")
        ctx.done(case, nontrivial=False, sample={"skipped": "relative ESS within 1e-9 of the threshold", "start": case["start"]})
        return
    lp1 = float(td.log_p_one(build_tree(ds.real, f, o)))
    if case.get("single"):
        exp_row = prg_expected_row(ds, td, f, o)
        dev = max(abs(row.get(k, 0.0) - exp_row.get(k, 0.0)) for k in set(row) | set(exp_row))
        ctx.stat("big_single_rows")
        if dev > 1e-9:
            ctx.oracle_fail(case, f"prune-regraft on {case['n']} clones: transition row differs from the Gibbs conditional over all "
                            f"attachment points by {dev:.3e}", "mcmc.gibbs_mh.PruneRegraphSampler.sample_tree",
                            {"kind": "row-not-gibbs-conditional"}, {"max_abs": dev})
    else:
        ctx.partial(case["group"], {"start": tkey(f, o), "row": row, "lp1": lp1, "nstates": case["nstates"],
                                    "case": {k: v for k, v in case.items() if k != "start"}})
    if case["move"] == "sweep":
        req = {"op": "sweep", "data": case["data"], "N": case["N"], "theta": case["theta"], "k1": case["k1"], "k2": case["k2"],
               "cfg": {"kind": case["kind"], "op": "1/10" if case["outliers"] else "0/1", "alpha": case["alpha"], "perm": True},
               "tree": {"forest": f, "outs": o}}
        ctx.stat(f"sweep_k1_{case['k1']}_k2_{case['k2']}")
    elif case["move"] == "subtree":
        req = {"op": "subtree", "data": case["data"], "N": case["N"], "theta": case["theta"],
               "cfg": {"kind": case["kind"], "op": "1/10" if case["outliers"] else "0/1", "alpha": case["alpha"], "perm": True},
               "tree": {"forest": f, "outs": o}}
    else:
        req = {"op": "move", "kind": case["move"], "data": case["data"], "alpha": case["alpha"], "outliers": case["outliers"],
               "tree": {"forest": f, "outs": o}}
    ans = ctx.ask(req)
    mrow = {tkey(t[0], t[1]): Fraction(q) for t, q in ans["dist"]}
    for k in set(mrow) | set(row):
        if abs(float(mrow.get(k, 0)) - row.get(k, 0.0)) > 1e-10:
            what = (f"one iteration of run._run_main_sampler (num_samples_data_point = {case['k1']}, num_samples_prune_regraph = "
                    f"{case['k2']}) vs Sweep.sweepModel" if case["move"] == "sweep" else f"{case['move']} move")
            ctx.corr_fail(case, f"{what}: transition probability to {k}", {"code": row.get(k, 0.0), "model": float(mrow.get(k, 0))})
            break
    ctx.done(case, nontrivial=(case["n"] >= 2), sample={k: case[k] for k in ("move", "kind", "outliers", "alpha", "start", "pin", "k1", "k2") if k in case})


def finalize(ctx):
    groups = {}
    for g, p in ctx.partials:
        groups.setdefault(g, []).append(p)
    for g, ps in groups.items():
        case = dict(ps[0]["case"])
        if len(ps) != ps[0]["nstates"]:
            ctx.stat("incomplete_groups")
            continue
        if case["move"] == "subtree" and not case.get("pin"):
            continue  # the unconditional statement is false for this move (F7): only pinned instances are judged
        ps.sort(key=lambda p: p["start"])
        keys = [p["start"] for p in ps]
        idx = {k: i for i, k in enumerate(keys)}
        lp = np.array([p["lp1"] for p in ps])
        pi = np.exp(lp - lp.max())
        pi /= pi.sum()
        K = np.zeros((len(keys), len(keys)))
        for i, p in enumerate(ps):
            for k, v in p["row"].items():
                K[i, idx[k]] += v
        bias = pi @ K - pi
        ctx.stat("matrices_checked")
        site = {"dp": "mcmc.gibbs_mh.DataPointSampler.sample_tree", "prg": "mcmc.gibbs_mh.PruneRegraphSampler.sample_tree",
                "subtree": SUBTREE_SITE, "sweep": SWEEP_SITE}[case["move"]]
        if np.abs(bias).max() > 1e-10:
            j = int(np.abs(bias).argmax())
            case["target"] = json.loads(keys[j])
            sig = {"kind": "not-invariant"}
            if case.get("pin"):
                sig = {"pin": case["pin"], "bias": [round(float(b), 12) for b in bias]}
            what = f"one run-loop iteration (k1 = {case['k1']}, k2 = {case['k2']})" if case["move"] == "sweep" else f"{case['move']} move"
            ctx.oracle_fail(case, f"{what}: posterior not invariant, max |pi K - pi| = {np.abs(bias).max():.3e} at {keys[j]}",
                            site, sig, {"max_abs": float(np.abs(bias).max())})
        elif case.get("pin"):
            ctx.stat("pinned_instance_now_invariant")


def search(ctx, failed, rnd, deadline):
    import time

    # the whole iteration first when its correspondence broke (two data points with outliers: every move of the sweep acts there)
    if any(c.get("move") == "sweep" for c in failed):
        for kind in ("semi-adapted", "bootstrap", "fully-adapted"):
            for k1, k2 in ((1, 1), (2, 1)):
                if time.time() > deadline:
                    return
                ds = DataSet([gen_values(rnd, 1, 3, bits=3) for _ in range(2)], Fraction(1, 5))
                td = make_tree_dist(1.0)
                states = all_canon_trees(2, outliers=True)
                sub = type(ctx)(ctx.pid, ctx.tier, ctx.seed, None)
                for f, o in states:
                    case = {"move": "sweep", "n": 2, "outliers": True, "kind": kind, "N": 2, "theta": "1/2", "k1": k1, "k2": k2, "group": "s",
                            "nstates": len(states), "data": ds.to_json(), "alpha": "1/1", "start": [f, o], "pin": None, "relabel": True}
                    row, _ = real_row(case, ds, td)
                    sub.partial("s", {"start": tkey(f, o), "row": row, "lp1": float(td.log_p_one(build_tree(ds.real, f, o))),
                                      "nstates": len(states), "case": {k: v for k, v in case.items() if k != "start"}})
                    ctx.evaluations += 1
                finalize(sub)
                ctx.oracle_failures += sub.oracle_failures
                if sub.oracle_failures:
                    return
    for move in ("dp", "prg"):
        for outl in (False, True):
            if time.time() > deadline:
                return
            n = 3
            vals = [gen_values(rnd, 1, 3, bits=3) for _ in range(n)]
            ds = DataSet(vals, Fraction(1, 5) if outl else Fraction(0))
            td = make_tree_dist(1.0)
            states = all_canon_trees(n, outliers=outl)
            sub = type(ctx)(ctx.pid, ctx.tier, ctx.seed, None)
            for f, o in states:
                case = {"move": move, "n": n, "outliers": outl, "kind": "semi-adapted", "N": 2, "theta": "1/2", "group": "s", "nstates": len(states),
                        "data": ds.to_json(), "alpha": "1/1", "start": [f, o], "pin": None}
                row, _ = real_row(case, ds, td)
                sub.partial("s", {"start": tkey(f, o), "row": row, "lp1": float(td.log_p_one(build_tree(ds.real, f, o))),
                                  "nstates": len(states), "case": {k: v for k, v in case.items() if k != "start"}})
                ctx.evaluations += 1
            finalize(sub)
            ctx.oracle_failures += sub.oracle_failures
            if sub.oracle_failures:
                return


def replay(ctx, case):
    """A replay names a configuration (and possibly one start tree): recompute every row of that configuration and judge it."""
    if case.get("single"):
        return check(ctx, case)  # a single transition row judged on its own (larger trees)
    ds = DataSet.from_json(case["data"])
    states = all_canon_trees(case["n"], outliers=case["outliers"])
    base = {k: v for k, v in case.items() if k not in ("start", "target")}
    base["group"] = base.get("group", "replay")
    base["nstates"] = len(states)
    for f, o in states:
        check(ctx, dict(base, start=[f, o]))
    finalize(ctx)
