"""C19 — a run on valid input completes and records only finite, complete trees.

Kinds of cases:
* `chain`: one in-process `phyclone.run.run_phyclone_chain` on an exact synthetic data set (1-3 data
  points, 1-2 samples) with one combination of boundary option values; the run is instrumented from
  the harness (recording random generator, counting proxies around the six samplers, wrappers around
  `ConditionalSMCSampler.sample/_resample_swarm` and the subtree sampler's fallback) — no repo edit.
* `tsv`: the same, but the data points come from `phyclone.data.pyclone.load_data` on a tiny TSV.
* `cli`: the console entry point in a subprocess (`run`, then `map`, `consensus`, `topology-report`).
* `conc_prior`: one direct call of the concentration sampler's prior branch (regression input).
* `probe`: options the CLI accepts but the property text does not list (`--print-freq 0`,
  `--concentration-value <= 0`): the outcome is recorded in the evidence, never judged.
* `cli_edge`: the `phyclone run` click command invoked in process (`click.testing.CliRunner`, same parsing and
  callback as the console entry point) with option values at the edges of what `cli.py` accepts, including values
  outside a documented range that click clamps (`IntRange/FloatRange(..., clamp=True)`): the parsed value must be the
  clamped one, the run must finish and the trace file must satisfy the property.
* `cli_reject`: a malformed value (not a number, not one of the choices, missing file, unknown option): must end as a
  clean click error (exit status 2, `Error: ...`, no traceback, no output file), in process and in a subprocess.
* `cli_probe`: values click accepts for options the property text does not list (`--precision <= 0`, `--seed -1`, the
  two loss-probability flags together, ...): outcome recorded under `probes_outside_property[...]`, never judged.
"""
import contextlib
import gzip
import io
import math
import os
import pickle
import random
import subprocess
import sys
import tempfile
import time
import traceback
import warnings
from fractions import Fraction

import numpy as np

from ..common import gen_dataset, extract, WFError, fr

import phyclone.run as prun
import phyclone.smc.samplers.conditional as pcond
import phyclone.mcmc.particle_gibbs as ppg
from phyclone.mcmc.concentration import GammaPriorConcentrationSampler
from phyclone.tree import Tree, FSCRPDistribution, TreeJointDistribution

ID = "C19"
LEVEL = "other"
THEOREMS = ["resample_index_ok", "resample_unrepaired_fails", "subtree_choice_nonempty_or_fallback", "normalise_ok",
            "weights_positive", "schedule_total", "schedule_untimed", "run_guards_ok",
            "support_complete_wf", "run_states_ok", "run_start_ok", "run_start_store_ok", "run_entries_ok"]
BUDGET = {"quick": 100, "thorough": 900}
MAX_JOBS = 14
EXPLANATION = (
    "Logic core proved, runtime explored exhaustively at the boundaries.  Proved in Lean on the run-loop skeleton "
    "(Model/RunLoop.lean), for every particle count >= 1, every number of data points >= 1, every outcome of every resampling "
    "decision / multiplicity vector / node draw / iteration duration: the retained-particle lookup of the repaired "
    "_resample_swarm and the path lookups of _init_swarm/_update_swarm are in range and the swarm keeps exactly N particles "
    "with the constrained path in slot 0; the subtree sampler calls choice only on a non-empty list and otherwise falls back; "
    "normalising a non-empty vector of positive weights never divides by zero; with positive likelihood values, alpha > 0 and "
    "outlier priors in [0,1) every proposal probability of Proposal.table and every incremental weight (incrWeight, including "
    "the last-step correction) is positive; burn-in / main loop / thinning / time limit terminate for thin, print_freq >= 1 and "
    "record the post-burn-in entry first, at most 1 + num_iters entries, exactly the thinned schedule without a time limit.  "
    "Also proved, composing C03 / C06 / C07 / C15 with the sampler models of C01 / C04: every tree listed by SMC.pgStep, SMC.smcStep, "
    "Moves.dataPointMove, Moves.pruneRegraft, Moves.subtreeMove for a complete well-formed tree is a complete well-formed tree on the "
    "same data (support_complete_wf); by induction every state of a run - burn-in sweeps, main sweeps, any schedule, any outcome of "
    "every draw - is complete and well formed and has pOne > 0 for positive data (run_states_ok); and every entry recorded by "
    "TraceLoop.runMain, when the sampler oracle returns a store reached by legal edits whose tree is listed by the sweep model, restores "
    "to a store satisfying the C07 / C06 invariants, holding every data point once, with the recorded, positive log_p_one "
    "(run_entries_ok).  NOT provable on any model (OBLIGATION-OPEN run_ok): that no *other* Python exception can occur (rustworkx graph "
    "calls, numpy / numba / scipy internals and the asserts guarding them, float underflow of log-weights to -inf on large inputs, memory, "
    "process pool, file system).  Those are covered by running the real chain driver over the boundary "
    "cross-product of all listed options on 1-3 data points (plus TSV-loaded data, the console entry point, and the click command at "
    "the edges of every accepted range), with the model's "
    "schedule, call counts, swarm bookkeeping and subtree decisions compared against the instrumented run.")
RULE = ("chain: proposal x num_particles {1,2,5} x resample_threshold {0,1/2,1} x outlier_prob {0,1e-4,1/2,1} x subtree_update_prob "
        "{0,1/2,1} x n in {1,2,3} x concentration update on/off x max_time {inf,0,1e-7} (the 'core'), with thin {1,3}, burnin {0(API),1,2}, "
        "num_iters {1,4}, num_samples_data_point / prune_regraph {0,1,2} (and -1), samples {1,2}, grid {5,11}, numpy seed drawn per case; quick = "
        "every single-factor change of the default configuration + a pairwise covering set of all factor values + the full 648-"
        "configuration product proposal x N x threshold x outlier_prob x subtree_prob on 1 and 2 data points + a seeded eighth of "
        "the core product; thorough = the full core product twice (two data/numpy seeds, other factors drawn) + the full product of "
        "the other factors on 24 core picks; both tiers add random corners on 4-6 data points with up to 10 particles (60 / 1500).  Data: exact dyadic likelihoods (harness.common.gen_dataset) or load_data on a TSV of "
        "1-3 mutations x 1-2 samples with boundary counts.  A case is non-trivial when every option is in the CLI-accepted range, "
        "the run completes and records at least two entries; distinct = distinct configuration.  Malformed (thin 0, 0 particles) "
        "and API-only (burnin 0) cases are compared with the model's guards only.  cli_edge: the click command in process on 1-3 mutations "
        "at num_particles 1, resample_threshold 0 / 1, thin > num_iters, burnin 1 (0 is clamped), max_time 0 / 1e-12 / negative, grid_size 11, "
        "precision 1e-9 / 1e12, num_chains 1-3, subtree_update_prob 0 / 1, outlier_prob 0 / 1, both densities, all proposals, negative "
        "auxiliary-move counts, and one case with every ranged option below / above its range (must be clamped to the boundary); "
        "cli_reject: 16 malformed values / options.")
TRUSTED = ["time.time() is monotone over one run and one sampler iteration takes longer than 1e-7 s (the time-limit cases compare the "
           "number of executed iterations with the model's timer)",
           "numpy's multinomial returns a multiplicity vector of the length of pvals summing to n; choice returns an element of its argument",
           "the recording generator (a Python subclass of numpy.random.Generator overriding choice / multinomial only to log them) "
           "produces the same stream as numpy.random.default_rng(seed)"]
ASSUMPTIONS = ["'valid data set' = every likelihood value positive and finite (dyadic values >= 1/8 per grid point, or PyClone grids from "
               "read counts with depth >= 1 on <= 3 mutations); underflow of real-size inputs to -inf is outside the quantifier's 'small' sets",
               "options in scope are those the property text lists; --print-freq 0 and --concentration-value <= 0 are accepted by "
               "click (plain int / float) and do crash (ZeroDivisionError / AssertionError) — recorded as probes in the evidence, "
               "reported to the lead, not judged",
               "outlier_prob = 1.0 is accepted (FloatRange(0,1)); the code then stores log(1) = 0, which its own `outlier_prob != 0` "
               "test reads as 'outlier modelling off for this data point', so the run stays finite; weights_positive is stated for "
               "outlier priors in [0,1)",
               "click ranges are all declared with clamp=True: an out-of-range number for a listed option is not rejected but moved to "
               "the boundary; the check judges that the clamped value is the one the run uses and that the run is clean",
               "values click accepts for options the property text does not list are probes (recorded under probes_outside_property, "
               "lead's ruling): --precision <= 0 / inf / nan (AssertionError), --seed -1 (ValueError from numpy), --assign-loss-prob with "
               "--user-provided-loss-prob (bare Exception), --in-file naming a directory, --out-file in a missing directory"]
SITE = "run.py:run_phyclone_chain"
SEARCH_BUDGET = 90

PROPOSALS = ["bootstrap", "semi-adapted", "fully-adapted"]
CORE = {
    "proposal": PROPOSALS,
    "N": [1, 2, 5],
    "thr": [0.0, 0.5, 1.0],
    "op": ["0", "1/10000", "1/2", "1"],
    "sub": [0.0, 0.5, 1.0],
    "n": [1, 2, 3],
    "cu": [True, False],
    "max_time": ["inf", "0", "1/10000000"],
}
OTHER = {
    "thin": [1, 3],
    "burnin": [1, 2, 0],
    "num_iters": [1, 4],
    "ndp": [1, 0, 2],
    "nprg": [1, 0, 2],
    "S": [1, 2],
    "G": [5, 11],
}
DEFAULT = {"kind": "chain", "proposal": "semi-adapted", "N": 2, "thr": 0.5, "op": "0", "sub": 0.0, "n": 2, "cu": True,
           "max_time": "inf", "thin": 1, "burnin": 1, "num_iters": 4, "ndp": 1, "nprg": 1, "S": 1, "G": 5, "pf": 100, "cv": 1.0,
           "seed": 0, "dseed": 0}


# ------------------------------------------------------------------------------- instrumentation
class RecGen(np.random.Generator):
    """numpy Generator that logs the guard-relevant facts of every choice / multinomial call."""

    def __init__(self, seed):
        super().__init__(np.random.PCG64(seed))
        self.n_choice = 0
        self.n_multinomial = 0
        self.min_choice_len = None
        self.bad = []  # guard violations seen before numpy judged the call
        self.last_mult = None
        self.mark = None  # set by the subtree proxy: the next choice call is the node choice
        self.subtree_choice = None
        self.max_p_dev = 0.0

    def choice(self, a, *args, **kw):
        k = len(a) if hasattr(a, "__len__") else int(a)
        self.n_choice += 1
        if self.min_choice_len is None or k < self.min_choice_len:
            self.min_choice_len = k
        size = args[0] if args else kw.get("size")
        if k == 0 and not (size is not None and np.prod(size) == 0):  # choice([], 0) is legal: no draw is made
            self.bad.append("choice from an empty list")
        r = super().choice(a, *args, **kw)
        if self.mark == "subtree":
            self.mark = None
            self.subtree_choice = (list(a), r)
        return r

    def multinomial(self, n, pvals, *args, **kw):
        self.n_multinomial += 1
        p = np.asarray(pvals, dtype=float)
        if n < 0:
            self.bad.append(f"multinomial with n = {n}")
        if p.size == 0:
            self.bad.append("multinomial over an empty vector")
        elif not np.all(np.isfinite(p)):
            self.bad.append("multinomial with non-finite probabilities")
        else:
            self.max_p_dev = max(self.max_p_dev, abs(float(p.sum()) - 1.0))
        r = super().multinomial(n, pvals, *args, **kw)
        self.last_mult = [int(x) for x in np.asarray(r).ravel()]
        return r


class _Count:
    """Counting proxy around one sampler object."""

    def __init__(self, real, rec, key):
        self._real, self._rec, self._key = real, rec, key

    def __getattr__(self, name):
        return getattr(self._real, name)

    def sample_tree(self, tree):
        self._rec["calls"][self._key] += 1
        return self._real.sample_tree(tree)

    def sample(self, *a, **k):
        self._rec["calls"][self._key] += 1
        v = self._real.sample(*a, **k)
        self._rec["conc_values"].append(v)
        return v


class _Subtree(_Count):
    def sample_tree(self, tree):
        rec = self._rec
        rec["calls"][self._key] += 1
        out_name = tree.outlier_node_name
        labels = [None if v == out_name else v for v in tree.labels.values()]
        ev = {"labels": labels, "fallback": False, "choice": None}
        rec["subtree"].append(ev)
        rec["in_subtree"] = ev
        rec["rng"].mark = "subtree"
        rec["rng"].subtree_choice = None
        try:
            return self._real.sample_tree(tree)
        finally:
            ev["choice"] = rec["rng"].subtree_choice
            rec["rng"].mark = None
            rec["in_subtree"] = None


@contextlib.contextmanager
def instrumented(rec):
    """Patch (and restore) the module-level hooks; everything is recorded into `rec`."""
    orig_setup = prun.setup_samplers
    orig_resample = pcond.ConditionalSMCSampler._resample_swarm
    orig_sample = pcond.ConditionalSMCSampler.sample  # inherited from AbstractSMCSampler
    orig_pg = ppg.ParticleGibbsTreeSampler.sample_tree

    def setup(*a, **k):
        h = orig_setup(*a, **k)
        h.dp_sampler = _Count(h.dp_sampler, rec, "dp")
        h.prg_sampler = _Count(h.prg_sampler, rec, "prg")
        h.conc_sampler = _Count(h.conc_sampler, rec, "conc")
        h.burnin_sampler = _Count(h.burnin_sampler, rec, "burnin")
        h.tree_sampler = _Count(h.tree_sampler, rec, "tree")
        h.subtree_sampler = _Subtree(h.subtree_sampler, rec, "subtree")
        return h

    def resample(self):
        before = self.swarm
        n_before = len(before.particles)
        slot0 = before.particles[0] if n_before else None
        rec["rng"].last_mult = None
        orig_resample(self)
        fired = self.swarm is not before
        ev = {"fire": fired, "mult": rec["rng"].last_mult if fired else None, "before": n_before,
              "after": len(self.swarm.particles), "slot0_kept": (not fired) or (self.swarm.particles[0] is slot0)}
        if rec["sweep"] is not None:
            rec["sweep"]["calls"].append(ev)

    def sample(self):
        sw = {"N": self.num_particles, "T": self.num_iterations, "calls": [], "final": None}
        rec["sweep"] = sw
        try:
            swarm = orig_sample(self)
        finally:
            rec["sweep"] = None
        gens = []
        for p in swarm.particles:
            g, q = 0, p
            while q is not None:
                g += 1
                q = q.parent_particle
            gens.append(g)
        sw["final"] = {"gens": gens, "slot0_is_path_end": swarm.particles[0] is self.constrained_path[-1]}
        if len(rec["sweeps"]) < 12:
            rec["sweeps"].append(sw)
        rec["n_sweeps"] += 1
        return swarm

    def pg_sample_tree(self, tree):
        ev = rec.get("in_subtree")
        if ev is not None and isinstance(self, ppg.ParticleGibbsSubtreeSampler):
            ev["fallback"] = True
            rec["rng"].mark = None
        return orig_pg(self, tree)

    prun.setup_samplers = setup
    pcond.ConditionalSMCSampler._resample_swarm = resample
    pcond.ConditionalSMCSampler.sample = sample
    ppg.ParticleGibbsTreeSampler.sample_tree = pg_sample_tree
    try:
        yield
    finally:
        prun.setup_samplers = orig_setup
        pcond.ConditionalSMCSampler._resample_swarm = orig_resample
        del pcond.ConditionalSMCSampler.sample  # the inherited AbstractSMCSampler.sample is visible again
        ppg.ParticleGibbsTreeSampler.sample_tree = orig_pg


KIND_OF = [
    (IndexError, None, "indexOutOfRange"),
    (ValueError, "cannot be empty", "emptyChoice"),
    (ValueError, "n < 0", "negativeDraws"),
    (ValueError, "pvals", "zeroWeightSum"),
    (ValueError, "zero-size array", "emptySwarm"),
    (AssertionError, None, "assertFailed"),
    (ZeroDivisionError, None, "modByZero"),
]


def err_kind(e):
    for typ, frag, kind in KIND_OF:
        if isinstance(e, typ) and (frag is None or frag in str(e)):
            return kind
    return "other:" + type(e).__name__


def err_site(e):
    """innermost phyclone frame as file:function (stable part of the failure signature)"""
    site = "?"
    for f in traceback.extract_tb(e.__traceback__):
        fn = f.filename.replace("\\", "/")
        if "/phyclone/" in fn and "/harness/" not in fn:
            site = fn.split("/phyclone/")[-1] + ":" + f.name
    return site


def max_time_float(s):
    return float(s) if s in ("inf", "nan") else float(Fraction(s))


def is_valid(c):
    """every option inside the range the CLI accepts (and listed by the property)"""
    return (c["N"] >= 1 and c["thin"] >= 1 and c["burnin"] >= 1 and c["num_iters"] >= 1 and c.get("pf", 100) != 0
            and 0 <= float(Fraction(c["op"])) <= 1 and 0 <= c["thr"] <= 1 and 0 <= c["sub"] <= 1 and c.get("cv", 1.0) > 0
            and c["proposal"] in PROPOSALS)


TSV_HEADER = "mutation_id\tsample_id\tref_counts\talt_counts\tmajor_cn\tminor_cn\tnormal_cn\n"


def tsv_text(rows):
    return TSV_HEADER + "".join("\t".join(str(x) for x in r) + "\n" for r in rows)


def make_data(case, tmpdir=None):
    """-> (data points, sample names)"""
    if case["kind"] == "tsv":
        from phyclone.data.pyclone import load_data

        path = os.path.join(tmpdir, "in.tsv")
        with open(path, "w") as fh:
            fh.write(tsv_text(case["rows"]))
        with contextlib.redirect_stdout(io.StringIO()):
            data, samples = load_data(path, np.random.default_rng(case["seed"]), 0.0001, 0.4, False, cluster_file=None,
                                      density=case["density"], grid_size=case["G"], outlier_prob=float(Fraction(case["op"])),
                                      precision=case["precision"])
        return data, samples
    ds = gen_dataset(random.Random(case["dseed"]), case["n"], S=case["S"], G=case["G"], bits=3, outlier_prob=Fraction(case["op"]))
    return ds.real, [f"s{i}" for i in range(case["S"])]


def run_chain(case, data, samples):
    """Instrumented real run.  Returns (result or None, exception or None, rec)."""
    rng = RecGen(case["seed"])
    rec = {"rng": rng, "calls": {k: 0 for k in ("dp", "prg", "conc", "burnin", "tree", "subtree")}, "conc_values": [],
           "subtree": [], "in_subtree": None, "sweep": None, "sweeps": [], "n_sweeps": 0}
    res = exc = None
    with instrumented(rec), contextlib.redirect_stdout(io.StringIO()), warnings.catch_warnings():
        warnings.simplefilter("ignore")
        try:
            res = prun.run_phyclone_chain(
                case["burnin"], case["cu"], case.get("cv", 1.0), data, max_time_float(case["max_time"]), case["num_iters"],
                case["N"], case["ndp"], case["nprg"], float(Fraction(case["op"])), case.get("pf", 100), case["proposal"],
                case["thr"], rng, samples, case["thin"], 0, case["sub"])
        except Exception as e:  # judged below
            exc = e
    return res, exc, rec


def entry_problems(entry, n_data):
    """The property's statement for one trace entry; returns a list of (signature, detail)."""
    out = []
    for k in ("iter", "time", "alpha", "log_p_one", "tree"):
        if k not in entry:
            return [("entry-incomplete", f"missing key {k}")]
    lp, al = entry["log_p_one"], entry["alpha"]
    if not (isinstance(lp, (int, float, np.floating)) and math.isfinite(lp)):
        out.append(("non-finite-log_p_one", repr(lp)))
    if not (isinstance(al, (int, float, np.floating)) and math.isfinite(al) and al > 0):
        out.append(("alpha-not-finite-positive", repr(al)))
    if not math.isfinite(entry["time"]):
        out.append(("non-finite-time", repr(entry["time"])))
    try:
        t = Tree.from_dict(entry["tree"])
        forest, outs = extract(t)
    except WFError as e:
        return out + [("tree-not-well-formed", str(e))]
    except Exception as e:
        return out + [("tree-does-not-restore:" + type(e).__name__, str(e)[:300])]
    dps = sorted(list(_dps(forest)) + list(outs))
    if dps != list(range(n_data)):
        out.append(("data-points-not-exactly-once", f"{dps} vs 0..{n_data - 1}"))
    if math.isfinite(al) and al > 0:
        with warnings.catch_warnings():
            warnings.simplefilter("ignore")
            v = TreeJointDistribution(FSCRPDistribution(float(al))).log_p_one(t)
        if not math.isfinite(v):
            out.append(("restored-tree-log_p_one-non-finite", repr(v)))
    return out


def _dps(forest):
    for d, k in forest:
        yield from d
        yield from _dps(k)


def model_max_time(s):
    return s


# ------------------------------------------------------------------------------- check
def check(ctx, case):
    kind = case.get("kind", "chain")
    ctx.stat("kind=" + kind)
    if kind == "conc_prior":
        return check_conc_prior(ctx, case)
    if kind == "cli":
        return check_cli(ctx, case)
    if kind == "probe":
        return check_probe(ctx, case)
    if kind == "cli_edge":
        return check_cli_edge(ctx, case)
    if kind == "cli_reject":
        return check_cli_reject(ctx, case)
    if kind == "cli_probe":
        return check_cli_probe(ctx, case)
    with tempfile.TemporaryDirectory(prefix="c19_") as tmp:
        try:
            with warnings.catch_warnings():
                warnings.simplefilter("ignore")
                data, samples = make_data(case, tmp)
        except Exception as e:
            ctx.oracle_fail(case, "loading a valid input raised", "data/pyclone.py:load_data", f"{type(e).__name__}:{err_site(e)}", str(e)[:500])
            ctx.done(case, nontrivial=False)
            return
    n_data = len(data)
    valid = is_valid(case)
    res, exc, rec = run_chain(case, data, samples)
    rng = rec["rng"]
    ctx.stat(f"n_data={n_data}")
    ctx.stat("valid" if valid else "outside-cli-range")

    # ---- direct oracle (no model): the property's own statement
    outcome = "ok"
    if exc is not None:
        outcome = err_kind(exc)
        ctx.stat("raised=" + outcome)
        if valid:
            ctx.oracle_fail(case, "run_phyclone_chain raised on a valid configuration", err_site(exc),
                            f"{type(exc).__name__}:{err_site(exc)}", "".join(traceback.format_exception_only(type(exc), exc))[:500])
    else:
        trace = res["trace"]
        if len(trace) == 0:
            ctx.oracle_fail(case, "empty trace", SITE, "empty-trace")
        for k, e in enumerate(trace):
            for sig, det in entry_problems(e, n_data):
                ctx.oracle_fail(case, f"trace entry {k} (iter {e.get('iter')}) violates the property", "run.py:append_to_trace", sig, det)
        if valid and case["max_time"] == "inf":
            want = [0] + [i for i in range(case["num_iters"]) if i % case["thin"] == 0]
            got = [e["iter"] for e in trace]
            if got != want:
                ctx.oracle_fail(case, "recorded iterations differ from the thinned schedule", "run.py:_run_main_sampler", "schedule", f"{got} vs {want}")
        if any(not (math.isfinite(v) and v > 0) for v in rec["conc_values"]):
            ctx.oracle_fail(case, "concentration sampler returned a non-positive or non-finite value", "mcmc/concentration.py:GammaPriorConcentrationSampler.sample", "conc-nonpositive", repr(rec["conc_values"][:5]))
        ctx.stat(f"entries={min(len(trace), 6)}")
        try:
            if any(len(Tree.from_dict(e["tree"]).outliers) == n_data for e in trace):
                ctx.stat("run-with-all-outlier-entry")
        except Exception:
            pass
    if rng.bad and exc is None:
        # numpy accepted a call our guard list considers a failure point: a harness/model gap, make it visible
        ctx.corr_fail(case, "guard flagged a call that numpy accepted", rng.bad[:3])

    # ---- correspondence with the Lean run-loop model
    if ctx.lean is not None:
        model_compare(ctx, case, n_data, res, exc, outcome, rec)

    ctx.stat("resample_fired", sum(1 for s in rec["sweeps"] for c in s["calls"] if c["fire"]))
    ctx.stat("subtree_fallback", sum(1 for s in rec["subtree"] if s["fallback"]))
    ctx.stat("subtree_choice", sum(1 for s in rec["subtree"] if not s["fallback"]))
    sample = None
    if exc is None:
        sample = {"config": {k: v for k, v in case.items() if k != "rows"}, "entries": len(res["trace"]),
                  "iters": [e["iter"] for e in res["trace"]], "calls": rec["calls"], "multinomial_calls": rng.n_multinomial,
                  "choice_calls": rng.n_choice}
    ctx.done(case, nontrivial=bool(valid and exc is None and len(res["trace"]) >= 2), sample=sample)


def model_compare(ctx, case, n_data, res, exc, outcome, rec):
    ans = ctx.ask({"op": "c19_run", "burnin": case["burnin"], "num_iters": case["num_iters"], "thin": case["thin"],
                   "print_freq": abs(case.get("pf", 100)), "N": case["N"], "ndp": case["ndp"], "nprg": case["nprg"], "cu": case["cu"],
                   "max_time": model_max_time(case["max_time"]), "dur": "1"})
    if not ans["ok"]:
        if outcome != ans["err"]:
            ctx.corr_fail(case, "model predicts a failure the code does not show (or another kind)", {"model": ans["err"], "code": outcome})
        return
    if exc is not None:
        ctx.corr_fail(case, "code raised where the model's guards all pass", {"code": outcome, "site": err_site(exc)})
        return
    calls = rec["calls"]
    got = {"burnin_iters": calls["burnin"], "main_iters": calls["tree"] + calls["subtree"], "iters": [e["iter"] for e in res["trace"]],
           "dp_calls": calls["dp"], "prg_calls": calls["prg"], "conc_calls": calls["conc"]}
    want = {k: ans[k] for k in got}
    if got != want:
        ctx.corr_fail(case, "schedule / call counts differ from the model", {"code": got, "model": want})
    # swarm bookkeeping of the recorded conditional SMC sweeps
    for sw in rec["sweeps"]:
        fire = [c["fire"] for c in sw["calls"]]
        mult = [c["mult"] if c["mult"] is not None else [] for c in sw["calls"]]
        a = ctx.ask({"op": "c19_csmc", "N": sw["N"], "T": sw["T"], "fire": fire, "mult": mult})
        if not a["ok"]:
            ctx.corr_fail(case, "model's swarm guards fail on a sweep the code completed", {"sweep": sw, "model": a["err"]})
            continue
        mg = [g for g, _ in a["swarm"]]
        if mg != sw["final"]["gens"] or not sw["final"]["slot0_is_path_end"] or a["swarm"][0] != [sw["T"], 0]:
            ctx.corr_fail(case, "final swarm differs from the model", {"sweep": sw, "model": a["swarm"]})
        for c in sw["calls"]:
            if c["fire"] and (c["after"] != sw["N"] or not c["slot0_kept"] or sum(c["mult"]) != sw["N"] - 1 or len(c["mult"]) != c["before"]):
                ctx.corr_fail(case, "resampling step: swarm size / retained slot / number of draws", {"call": c, "N": sw["N"]})
    # subtree decisions
    for ev in rec["subtree"][:8]:
        names = sorted({x for x in ev["labels"] if x is not None}, key=repr)
        enc = {x: i for i, x in enumerate(names)}
        labels = [None if x is None else enc[x] for x in ev["labels"]]
        nodes = [x for x in labels if x is not None]
        if ev["fallback"]:
            u = 0
        elif ev["choice"] is None:
            ctx.corr_fail(case, "subtree sampler neither fell back nor drew a node", ev)
            continue
        else:
            lst, r = ev["choice"]
            if [enc.get(x) for x in lst] != nodes:
                ctx.corr_fail(case, "subtree sampler drew from a list other than the non-outlier labels", {"drawn_from": repr(lst), "labels": repr(ev["labels"])})
                continue
            u = [i for i, x in enumerate(lst) if x == r][0]
        a = ctx.ask({"op": "c19_subtree", "labels": labels, "u": u})
        want = {"ok": True, "pick": "fallback"} if ev["fallback"] else {"ok": True, "pick": "node", "n": enc[ev["choice"][1]]}
        if a != want:
            ctx.corr_fail(case, "subtree decision differs from the model", {"code": want, "model": a, "labels": labels})


def check_conc_prior(ctx, case):
    s = GammaPriorConcentrationSampler(case["a"], case["b"], np.random.default_rng(case["seed"]))
    try:
        v = s.sample(case["alpha"], case["K"], case["n"])
    except Exception as e:
        ctx.oracle_fail(case, "concentration sampler raised", "mcmc/concentration.py:GammaPriorConcentrationSampler.sample", f"{type(e).__name__}", str(e)[:300])
        ctx.done(case, nontrivial=False)
        return
    if not (math.isfinite(v) and v > 0):
        ctx.oracle_fail(case, "concentration sampler returned a non-positive value (log alpha = -inf in every later entry)",
                        "mcmc/concentration.py:GammaPriorConcentrationSampler.sample", "conc-nonpositive", repr(v))
    ctx.done(case, nontrivial=True, sample={"config": case, "value": float(v)})


def check_probe(ctx, case):
    c = dict(DEFAULT, **case["config"])
    data, samples = make_data(dict(c, kind="chain"))
    res, exc, rec = run_chain(c, data, samples)
    ctx.stat(f"probe[{case['what']}]=" + ("completed" if exc is None else f"{type(exc).__name__}@{err_site(exc)}"))
    ctx.done(case, nontrivial=False, sample=None)


# ------------------------------------------------------------------------------- CLI in a subprocess
ENTRY = "from phyclone.cli import main; main()"


def _cli(args, cwd, timeout=240):
    p = subprocess.run([sys.executable, "-c", ENTRY] + [str(a) for a in args], cwd=cwd, stdout=subprocess.PIPE, stderr=subprocess.STDOUT,
                       text=True, timeout=timeout)
    return p.returncode, p.stdout[-1500:]


def check_cli(ctx, case):
    site = "cli.py:run"
    with tempfile.TemporaryDirectory(prefix="c19cli_") as tmp:
        with open(os.path.join(tmp, "in.tsv"), "w") as fh:
            fh.write(tsv_text(case["rows"]))
        args = ["run", "--in-file", "in.tsv", "--out-file", "trace.pkl.gz"] + list(case["args"])
        try:
            rc, out = _cli(args, tmp)
        except subprocess.TimeoutExpired:
            ctx.oracle_fail(case, "phyclone run did not finish", site, "timeout")
            ctx.done(case, nontrivial=False)
            return
        if rc != 0:
            ctx.oracle_fail(case, "phyclone run exited non-zero", site, f"exit-{rc}:" + _last_error_line(out), out)
            ctx.done(case, nontrivial=False)
            return
        try:
            with gzip.open(os.path.join(tmp, "trace.pkl.gz"), "rb") as fh:
                results = pickle.load(fh)
        except Exception as e:
            ctx.oracle_fail(case, "trace file does not load", site, "trace-unreadable:" + type(e).__name__, str(e)[:300])
            ctx.done(case, nontrivial=False)
            return
        n_entries = 0
        for ch, r in sorted(results.items()):
            nd = len(r["data"])
            if len(r["trace"]) == 0:
                ctx.oracle_fail(case, "empty trace", site, "empty-trace")
            for k, e in enumerate(r["trace"]):
                n_entries += 1
                for sig, det in entry_problems(e, nd):
                    ctx.oracle_fail(case, f"chain {ch} trace entry {k} violates the property", "run.py:append_to_trace", sig, det)
        posts = {
            "map": ["map", "--in-file", "trace.pkl.gz", "--out-table-file", "map.tsv", "--out-tree-file", "map.nwk"],
            "consensus": ["consensus", "--in-file", "trace.pkl.gz", "--out-table-file", "cons.tsv", "--out-tree-file", "cons.nwk"],
            "topology-report": ["topology-report", "--in-file", "trace.pkl.gz", "--out-file", "topo.tsv"],
        }
        procs = {k: subprocess.Popen([sys.executable, "-c", ENTRY] + a, cwd=tmp, stdout=subprocess.PIPE, stderr=subprocess.STDOUT, text=True)
                 for k, a in posts.items()}
        for k, p in procs.items():
            try:
                out, _ = p.communicate(timeout=240)
            except subprocess.TimeoutExpired:
                p.kill()
                ctx.oracle_fail(case, f"phyclone {k} did not finish", f"cli.py:{k}", "timeout")
                continue
            if p.returncode != 0:
                ctx.oracle_fail(case, f"phyclone {k} exited non-zero on the trace of a completed run", f"cli.py:{k}",
                                f"exit-{p.returncode}:" + _last_error_line(out), out[-1500:])
        for f in ("map.tsv", "map.nwk", "cons.tsv", "cons.nwk", "topo.tsv"):
            fp = os.path.join(tmp, f)
            if all(p.returncode == 0 for p in procs.values()) and (not os.path.exists(fp) or os.path.getsize(fp) == 0):
                ctx.oracle_fail(case, f"output {f} missing or empty", "cli.py", "output-missing:" + f)
        ctx.stat("cli_entries", n_entries)
    ctx.done(case, nontrivial=True, sample={"args": case["args"], "entries": n_entries})


def _last_error_line(out):
    lines = [l for l in out.strip().splitlines() if l.strip()]
    return (lines[-1].split(":")[0] if lines else "")[:60]



# ------------------------------------------------------------------------------- click command at the edges, in process
@contextlib.contextmanager
def _quiet_fds():
    """send file descriptors 1 and 2 to /dev/null (spawned chain workers print to the inherited descriptors)"""
    sys.stdout.flush()
    sys.stderr.flush()
    saved = [os.dup(1), os.dup(2)]
    dn = os.open(os.devnull, os.O_WRONLY)
    try:
        os.dup2(dn, 1)
        os.dup2(dn, 2)
        yield
    finally:
        os.dup2(saved[0], 1)
        os.dup2(saved[1], 2)
        for fd in saved + [dn]:
            os.close(fd)


def _invoke(args):
    """`phyclone <args>` through click's test runner: same parser, same callback, exceptions kept"""
    from click.testing import CliRunner
    from phyclone.cli import main as cli_main

    with warnings.catch_warnings(), _quiet_fds():
        warnings.simplefilter("ignore")
        return CliRunner().invoke(cli_main, [str(a) for a in args])


def _parse_run(args):
    """what click makes of the `run` arguments (clamping included), without running anything"""
    from phyclone.cli import run as run_cmd

    with warnings.catch_warnings():
        warnings.simplefilter("ignore")
        return run_cmd.make_context("run", [str(a) for a in args]).params


def _exc_sig(res):
    e = res.exception
    if e is None or isinstance(e, SystemExit):
        return f"exit-{res.exit_code}"
    return f"{type(e).__name__}:{err_site(e)}"


def check_cli_edge(ctx, case):
    site = "cli.py:run"
    with tempfile.TemporaryDirectory(prefix="c19edge_") as tmp:
        inp, outp = os.path.join(tmp, "in.tsv"), os.path.join(tmp, "trace.pkl.gz")
        with open(inp, "w") as fh:
            fh.write(tsv_text(case["rows"]))
        run_args = ["--in-file", inp, "--out-file", outp] + list(case["args"])
        try:
            params = _parse_run(run_args)
        except Exception as e:
            ctx.oracle_fail(case, "click rejected a value the command line documents as accepted (or clamped)", site,
                            "edge-rejected:" + type(e).__name__, str(e)[:300])
            ctx.done(case, nontrivial=False)
            return
        for k, v in case.get("expect_params", {}).items():
            if params.get(k) != v:
                ctx.oracle_fail(case, f"option {k}: parsed value differs from the boundary the range clamps to", site,
                                "clamp:" + k, f"{params.get(k)!r} vs {v!r}")
        if case.get("subprocess"):  # several chains: the process pool spawns workers, which needs a real main module
            try:
                rc, out = _cli(["run"] + run_args, tmp)
            except subprocess.TimeoutExpired:
                rc, out = -1, "timeout"
            if rc != 0:
                ctx.oracle_fail(case, "phyclone run failed on option values the command line accepts", site,
                                f"exit-{rc}:" + _last_error_line(out), out)
                ctx.done(case, nontrivial=False)
                return
        else:
            res = _invoke(["run"] + run_args)
            if res.exit_code != 0 or res.exception is not None:
                tb = "".join(traceback.format_exception(*res.exc_info))[-1200:] if res.exc_info else res.output[-800:]
                ctx.oracle_fail(case, "phyclone run failed on option values the command line accepts", site, _exc_sig(res), tb)
                ctx.done(case, nontrivial=False)
                return
        try:
            with gzip.open(outp, "rb") as fh:
                results = pickle.load(fh)
        except Exception as e:
            ctx.oracle_fail(case, "trace file does not load", site, "trace-unreadable:" + type(e).__name__, str(e)[:300])
            ctx.done(case, nontrivial=False)
            return
        if sorted(results) != list(range(params["num_chains"])):
            ctx.oracle_fail(case, "chains in the trace file differ from --num-chains", site, "chains", f"{sorted(results)} vs {params['num_chains']}")
        n_entries = 0
        full = [0] + [i for i in range(params["num_iters"]) if i % params["thin"] == 0]
        for ch, r in sorted(results.items()):
            nd = len(r["data"])
            if any(d.value.shape[-1] != params["grid_size"] for d in r["data"]):
                ctx.oracle_fail(case, "grid size of the data differs from the parsed --grid-size", "data/pyclone.py:load_data", "grid-size",
                                f"{[d.value.shape for d in r['data']][:3]} vs {params['grid_size']}")
            iters = [e["iter"] for e in r["trace"]]
            mt = params["max_time"]
            if mt == float("inf") or mt != mt:
                if iters != full:
                    ctx.oracle_fail(case, "recorded iterations differ from the thinned schedule", "run.py:_run_main_sampler", "schedule", f"{iters} vs {full}")
            elif iters[:2] != full[:2] or iters != full[: len(iters)]:
                ctx.oracle_fail(case, "timed run: recorded iterations are not a prefix (of length >= 2) of the thinned schedule",
                                "run.py:_run_main_sampler", "schedule-timed", f"{iters} vs {full}")
            for k, e in enumerate(r["trace"]):
                n_entries += 1
                for sig, det in entry_problems(e, nd):
                    ctx.oracle_fail(case, f"chain {ch} trace entry {k} violates the property", "run.py:append_to_trace", sig, det)
        ctx.stat("cli_edge_entries", n_entries)
    ctx.done(case, nontrivial=n_entries >= 2, sample={"args": case["args"], "entries": n_entries})


def check_cli_reject(ctx, case):
    site = "cli.py:run"
    with tempfile.TemporaryDirectory(prefix="c19rej_") as tmp:
        inp, outp = os.path.join(tmp, "in.tsv"), os.path.join(tmp, "trace.pkl.gz")
        with open(inp, "w") as fh:
            fh.write(tsv_text(CLI_ROWS_1))
        base = [] if case.get("bare") else ["--in-file", inp, "--out-file", outp]
        args = ["run"] + base + [a.replace("@TMP", tmp) for a in case["args"]]
        if case.get("subprocess"):
            rc, out = _cli(args, tmp)
            clean = rc == 2 and "Error" in out and "Traceback" not in out
            sig = f"exit-{rc}"
        else:
            res = _invoke(args)
            out = res.output
            clean = (res.exit_code == 2 and isinstance(res.exception, SystemExit) and "Error" in out and "Traceback" not in out)
            sig = _exc_sig(res)
        if not clean:
            ctx.oracle_fail(case, "a malformed option value does not end as a clean click error (exit 2, 'Error: ...', no traceback)",
                            site, "reject-not-clean:" + sig, out[-800:])
        if os.path.exists(outp):
            ctx.oracle_fail(case, "an output file was written although the command line was rejected", site, "reject-wrote-output")
    ctx.done(case, nontrivial=True, sample={"args": case["args"]})


def check_cli_probe(ctx, case):
    with tempfile.TemporaryDirectory(prefix="c19prb_") as tmp:
        inp, outp = os.path.join(tmp, "in.tsv"), os.path.join(tmp, "trace.pkl.gz")
        with open(inp, "w") as fh:
            fh.write(tsv_text(CLI_ROWS_2))
        base = {"--in-file": inp, "--out-file": outp}
        args = [a.replace("@TMP", tmp) for a in case["args"]]
        for k, v in base.items():
            if k not in args:
                args = [k, v] + args
        res = _invoke(["run", "--num-iters", "2", "--num-particles", "2", "--grid-size", "11", "--seed", "1"] + args)
        if res.exception is None:
            what = "completed"
        elif isinstance(res.exception, SystemExit):
            what = f"click-error(exit {res.exit_code})"
        else:
            what = f"{type(res.exception).__name__}@{err_site(res.exception)}"
    ctx.stat(f"probes_outside_property[{case['what']}]={what}")
    ctx.done(case, nontrivial=False, sample=None)


# ------------------------------------------------------------------------------- case generation
def _cfg(rnd, **kw):
    c = dict(DEFAULT)
    c.update(kw)
    c["seed"] = rnd.randrange(1 << 30)
    c["dseed"] = rnd.randrange(1 << 30)
    return c


def _rand_other(rnd):
    d = {k: rnd.choice(v) for k, v in OTHER.items()}
    if rnd.random() < 0.05:
        d["ndp"] = -1
    return d


def _product(space):
    keys = list(space)
    out = [{}]
    for k in keys:
        out = [dict(o, **{k: v}) for o in out for v in space[k]]
    return out


def _pairwise(rnd):
    """a small set of full configurations covering every pair of factor values"""
    space = dict(CORE, **OTHER)
    keys = list(space)
    need = {(a, va, b, vb) for i, a in enumerate(keys) for b in keys[i + 1:] for va in space[a] for vb in space[b]}
    out = []

    def cover(c):
        for i, a in enumerate(keys):
            for b in keys[i + 1:]:
                need.discard((a, c[a], b, c[b]))

    for _ in range(60):
        c = {k: rnd.choice(v) for k, v in space.items()}
        out.append(c)
        cover(c)
    while need:
        a, va, b, vb = next(iter(need))
        c = {k: rnd.choice(v) for k, v in space.items()}
        c[a], c[b] = va, vb
        # greedily fix further uncovered pairs compatible with this one
        for (a2, va2, b2, vb2) in list(need)[:200]:
            if c.get(a2) == va2 and b2 not in (a, b):
                c[b2] = vb2
        out.append(c)
        cover(c)
    return out


def _tsv_case(rnd):
    n, S = rnd.choice([1, 1, 2, 3]), rnd.choice([1, 2])
    rows = []
    for m in range(n):
        major = rnd.choice([1, 1, 2, 3])
        minor = rnd.randint(0, major)
        for s in range(S):
            depth = rnd.choice([1, 2, 10, 60, 1000])
            alt = rnd.choice([0, depth, rnd.randint(0, depth), max(1, depth // 3)])
            rows.append([f"m{m}", f"s{s}", depth - alt, alt, major, minor, 2])
    c = _cfg(rnd, kind="tsv", rows=rows, density=rnd.choice(["binomial", "beta-binomial"]), precision=rnd.choice([1.0, 400.0, 1e4]),
             **{k: rnd.choice(v) for k, v in CORE.items() if k != "n"}, **_rand_other(rnd))
    c["G"] = rnd.choice([11, 21])
    c["n"], c["S"] = n, S
    return c


CLI_ROWS_1 = [["m0", "A", 20, 10, 1, 1, 2]]
CLI_ROWS_2 = [["m0", "A", 20, 10, 1, 1, 2], ["m0", "B", 25, 5, 1, 1, 2], ["m1", "A", 30, 3, 2, 0, 2], ["m1", "B", 10, 10, 2, 0, 2]]
CLI_ROWS_3 = CLI_ROWS_2 + [["m2", "A", 5, 0, 2, 1, 2], ["m2", "B", 0, 7, 2, 1, 2]]


def _cli_cases(rnd, tier):
    s = lambda: str(rnd.randrange(1 << 20))
    base = ["--grid-size", "11", "--print-freq", "1"]
    cs = [
        {"rows": CLI_ROWS_1, "args": base + ["--burnin", "1", "--num-iters", "3", "--num-particles", "1", "--resample-threshold", "1.0",
                                              "--outlier-prob", "0.5", "--subtree-update-prob", "1.0", "--proposal", "bootstrap", "--seed", s()]},
        {"rows": CLI_ROWS_2, "args": base + ["--burnin", "2", "--num-iters", "6", "--thin", "3", "--num-particles", "2", "--resample-threshold", "0.0",
                                              "--outlier-prob", "0.0001", "--subtree-update-prob", "0.5", "--proposal", "fully-adapted", "--max-time", "0",
                                              "--no-concentration-update", "--seed", s()]},
        {"rows": CLI_ROWS_3, "args": base + ["--burnin", "0", "--num-iters", "4", "--num-particles", "5", "--resample-threshold", "1.5",
                                              "--outlier-prob", "1.0", "--subtree-update-prob", "1.0", "--proposal", "semi-adapted",
                                              "--num-samples-data-point", "2", "--num-samples-prune-regraph", "0", "--density", "binomial", "--seed", s()]},
    ]
    if tier == "thorough":
        cs += [
            {"rows": CLI_ROWS_2, "args": base + ["--num-iters", "4", "--num-particles", "2", "--num-chains", "2", "--outlier-prob", "0.5",
                                                  "--subtree-update-prob", "0.5", "--resample-threshold", "1.0", "--seed", s()]},
            {"rows": CLI_ROWS_1, "args": base + ["--num-iters", "5", "--num-particles", "1", "--outlier-prob", "0.9999", "--subtree-update-prob", "0.7",
                                                  "--proposal", "fully-adapted", "--thin", "10", "--seed", s()]},
            {"rows": CLI_ROWS_3, "args": base + ["--num-iters", "5", "--num-particles", "3", "--outlier-prob", "0.3", "--subtree-update-prob", "1.0",
                                                  "--proposal", "bootstrap", "--resample-threshold", "1.0", "--max-time", "1e-9", "--seed", s()]},
            {"rows": CLI_ROWS_3, "args": ["--num-iters", "3", "--num-particles", "2", "--outlier-prob", "0.5", "--subtree-update-prob", "0.5",
                                          "--precision", "1.0", "--seed", s()]},
        ]
    return [dict(c, kind="cli") for c in cs]


def _cli_edge_cases(rnd, tier):
    s = lambda: str(rnd.randrange(1 << 20))
    it = ["--print-freq", "1", "--grid-size", "11"]
    edge = [
        # one particle, threshold 0, thin > num_iters, smallest burn-in
        (CLI_ROWS_2, it + ["--num-particles", "1", "--resample-threshold", "0", "--proposal", "bootstrap", "--density", "binomial",
                           "--thin", "7", "--num-iters", "3", "--burnin", "1", "--seed", s()], {}),
        # threshold 1, everything an outlier candidate, subtree update always, tiny precision
        (CLI_ROWS_3, it + ["--num-particles", "1", "--resample-threshold", "1", "--proposal", "fully-adapted", "--density", "beta-binomial",
                           "--precision", "1e-9", "--subtree-update-prob", "1", "--outlier-prob", "1", "--num-iters", "3", "--seed", s()], {}),
        # huge precision, time limit below one iteration, outliers off
        (CLI_ROWS_2, it + ["--num-particles", "2", "--resample-threshold", "1", "--proposal", "semi-adapted", "--precision", "1e12",
                           "--subtree-update-prob", "0", "--outlier-prob", "0", "--max-time", "1e-12", "--num-iters", "4", "--seed", s()], {}),
        # time limit 0 and negative, single iteration, no concentration update
        (CLI_ROWS_1, it + ["--max-time", "0", "--num-iters", "1", "--burnin", "1", "--thin", "1", "--no-concentration-update", "--seed", s()], {}),
        (CLI_ROWS_3, it + ["--max-time", "-5", "--num-iters", "3", "--outlier-prob", "0.5", "--subtree-update-prob", "0.5",
                           "--num-particles", "2", "--seed", s()], {}),
        # negative auxiliary-move counts (range() of a negative number is empty)
        (CLI_ROWS_2, it + ["--num-samples-data-point", "-3", "--num-samples-prune-regraph", "-1", "--num-iters", "3", "--num-particles", "2",
                           "--outlier-prob", "0.5", "--seed", s()], {}),
        # every ranged option outside its range: click clamps to the boundary
        (CLI_ROWS_2, ["--print-freq", "1", "--num-particles", "0", "--thin", "0", "--burnin", "0", "--num-iters", "0", "--grid-size", "1",
                      "--resample-threshold", "2", "--outlier-prob", "-1", "--subtree-update-prob", "5", "--num-chains", "0", "--seed", s()],
         {"num_particles": 1, "thin": 1, "burnin": 1, "num_iters": 1, "grid_size": 11, "resample_threshold": 1.0, "outlier_prob": 0.0,
          "subtree_update_prob": 1.0, "num_chains": 1}),
        (CLI_ROWS_3, ["--print-freq", "1", "--num-particles", "-7", "--thin", "-1", "--burnin", "-2", "--num-iters", "2", "--grid-size", "10",
                      "--resample-threshold", "-0.5", "--outlier-prob", "1.5", "--subtree-update-prob", "-1", "--seed", s()],
         {"num_particles": 1, "thin": 1, "burnin": 1, "num_iters": 2, "grid_size": 11, "resample_threshold": 0.0, "outlier_prob": 1.0,
          "subtree_update_prob": 0.0}),
        # two chains (process pool with spawned workers)
        (CLI_ROWS_2, it + ["--num-chains", "2", "--num-iters", "2", "--num-particles", "2", "--outlier-prob", "0.5",
                           "--subtree-update-prob", "0.5", "--seed", s()], {"num_chains": 2}),
    ]
    # all proposals x both densities, subtree update off / always
    combos = [(p, d, sb) for p in PROPOSALS for d in ("binomial", "beta-binomial") for sb in ("0", "1")]
    if tier == "quick":
        combos = [c for i, c in enumerate(combos) if i % 4 in (0, 3)]
    for p, d, sb in combos:
        edge.append((rnd.choice([CLI_ROWS_1, CLI_ROWS_2, CLI_ROWS_3]),
                     it + ["--proposal", p, "--density", d, "--subtree-update-prob", sb, "--num-iters", "3", "--num-particles", rnd.choice(["1", "2", "3"]),
                           "--outlier-prob", rnd.choice(["0", "0.0001", "1"]), "--resample-threshold", rnd.choice(["0", "1"]), "--seed", s()], {}))
    if tier == "thorough":
        edge.append((CLI_ROWS_3, it + ["--num-chains", "3", "--num-iters", "3", "--num-particles", "1", "--outlier-prob", "1",
                                       "--subtree-update-prob", "1", "--resample-threshold", "1", "--thin", "2", "--seed", s()], {"num_chains": 3}))
        edge.append((CLI_ROWS_3, ["--grid-size", "11", "--num-iters", "12", "--thin", "5", "--burnin", "3", "--max-time", "1e-9", "--seed", s()], {}))
    out = [{"kind": "cli_edge", "rows": r, "args": a, "expect_params": e} for r, a, e in edge]
    for c in out:
        if "--num-chains" in c["args"] and c["expect_params"].get("num_chains", 1) > 1:
            c["subprocess"] = True
    out.sort(key=lambda c: not c.get("subprocess", False))  # the slow ones first: they land on different workers
    rejects = [["--num-particles", "abc"], ["--num-particles", "1.5"], ["--thin", "1.5"], ["--burnin", "x"], ["--num-iters", ""],
               ["--resample-threshold", "0,5"], ["--outlier-prob", "half"], ["--subtree-update-prob", "p"], ["--max-time", "soon"],
               ["--grid-size", "ten"], ["--num-chains", "two"], ["--proposal", "foo"], ["--density", "gaussian"], ["--seed", "1.5"],
               ["--bogus"], ["--precision", "high"]]
    out += [{"kind": "cli_reject", "args": a} for a in rejects]
    out += [{"kind": "cli_reject", "args": ["--in-file", "@TMP/missing.tsv", "--out-file", "@TMP/trace.pkl.gz"], "bare": True},
            {"kind": "cli_reject", "args": ["--in-file", "@TMP/in.tsv"], "bare": True},  # --out-file is required
            {"kind": "cli_reject", "args": ["--num-particles", "abc"], "subprocess": True}]
    probes = [("precision=0", ["--precision", "0"]), ("precision=-1", ["--precision", "-1"]), ("precision=inf", ["--precision", "inf"]),
              ("precision=nan", ["--precision", "nan"]), ("seed=-1", ["--seed", "-1"]),
              ("assign-loss-prob+user-provided-loss-prob", ["--assign-loss-prob", "--user-provided-loss-prob"]),
              ("user-provided-loss-prob,no-cluster-file", ["--user-provided-loss-prob"]), ("max_time=nan", ["--max-time", "nan"]),
              ("in-file=directory", ["--in-file", "@TMP"]), ("out-file=in-missing-directory", ["--out-file", "@TMP/nodir/trace.pkl.gz"]),
              ("print-freq=0", ["--print-freq", "0"]), ("concentration-value=0", ["--concentration-value", "0"])]
    out += [{"kind": "cli_probe", "what": w, "args": a} for w, a in probes]
    return out


def cases(tier, rnd):
    out = []
    out += _cli_cases(rnd, tier)  # first: they are the slow ones and land on different workers
    out += _cli_edge_cases(rnd, tier)
    # single-factor changes of the default configuration
    for k, vals in list(CORE.items()) + list(OTHER.items()):
        for v in vals:
            out.append(_cfg(rnd, **{k: v}))
    out.append(_cfg(rnd, ndp=-1, nprg=-1))
    out.append(_cfg(rnd, max_time="-1"))
    # all pairs of factor values
    out += [_cfg(rnd, **c) for c in _pairwise(rnd)]
    # the five crash-relevant options in full on 1 and 2 data points
    five = {k: CORE[k] for k in ("proposal", "N", "thr", "op", "sub")}
    for n in (1, 2):
        out += [_cfg(rnd, n=n, **c) for c in _product(five)]
    core = _product(CORE)
    if tier == "quick":
        rnd.shuffle(core)
        out += [_cfg(rnd, **c, **_rand_other(rnd)) for c in core[: len(core) // 8]]
        n_tsv = 40
        n_big = 60
    else:
        for _ in range(2):
            out += [_cfg(rnd, **c, **_rand_other(rnd)) for c in core]
        picks = rnd.sample(core, 24)
        others = _product(OTHER)
        out += [_cfg(rnd, **c, **o) for c in picks for o in others]
        n_tsv = 400
        n_big = 1500
    out += [_tsv_case(rnd) for _ in range(n_tsv)]
    # beyond three data points: random corners on 4-6 data points, up to 10 particles
    for _ in range(n_big):
        c = {k: rnd.choice(v) for k, v in CORE.items()}
        c.update(n=rnd.choice([4, 4, 5, 6]), N=rnd.choice([1, 2, 5, 10]))
        out.append(_cfg(rnd, **c, **_rand_other(rnd)))
    # a valid data set on a large CCF grid (>= 1000 points: the convolutions take the FFT path, whose round-off produces
    # tiny negative values that must be floored before the log)
    for g in ((1000,) if tier == "quick" else (1000, 1001, 1024)):
        out.append(_cfg(rnd, n=3, G=g, N=2, num_iters=2, proposal=rnd.choice(["semi-adapted", "fully-adapted"])))
        # the same with deep-coverage PyClone grids (sharply peaked rows: most of the transform's output is round-off)
        deep = [[f"m{m}", "s0", 200 - a, a, 1, 1, 2] for m, a in enumerate((95, 60, 30))]
        c = _cfg(rnd, kind="tsv", rows=deep, density="binomial", precision=400.0, N=2, num_iters=2, thr=0.5, op="0", sub=0.0,
                 proposal=rnd.choice(["semi-adapted", "fully-adapted"]))
        c["G"], c["n"], c["S"] = g + 1, 3, 1
        out.append(c)
    # malformed / API-only: compared with the model's guards, never judged
    out += [_cfg(rnd, thin=0), _cfg(rnd, thin=0, burnin=2, n=1), _cfg(rnd, N=0), _cfg(rnd, N=0, n=3, burnin=2, op="1/2"),
            _cfg(rnd, pf=0), _cfg(rnd, num_iters=0), _cfg(rnd, num_iters=0, burnin=0)]
    out += [{"kind": "probe", "what": "print_freq=0", "config": {"pf": 0}},
            {"kind": "probe", "what": "concentration_value=0", "config": {"cv": 0.0}},
            {"kind": "probe", "what": "concentration_value=-1,no-update", "config": {"cv": -1.0, "cu": False}},
            {"kind": "probe", "what": "max_time=nan", "config": {"max_time": "nan"}}]
    return out


# ------------------------------------------------------------------------------- search / shrink
def search(ctx, failed_cases, rnd, deadline):
    """Oracle-only (ctx.lean is None): first the cases whose correspondence broke, then fresh ones."""
    todo = [c for c in failed_cases if isinstance(c, dict) and c.get("kind") in ("chain", "tsv")]
    core = _product(CORE)
    while time.time() < deadline and not ctx.oracle_failures:
        c = todo.pop(0) if todo else _cfg(rnd, **rnd.choice(core), **_rand_other(rnd))
        check(ctx, c)


def shrink(failure):
    """Move every option to its default while the same signature keeps failing."""
    from ..runner import Ctx

    case = failure["case"]
    if case.get("kind", "chain") != "chain":
        return failure
    sig = failure["signature"]
    t_end = time.time() + 30
    best = dict(case)

    def fails(c):
        cx = Ctx(ID, "quick", 0, None)
        check(cx, c)
        return next((f for f in cx.oracle_failures if f["signature"] == sig), None)

    for k in ("S", "G", "ndp", "nprg", "thin", "cu", "max_time", "num_iters", "burnin", "n", "sub", "thr", "N", "op", "proposal"):
        if time.time() > t_end or best[k] == DEFAULT[k]:
            continue
        c = dict(best, **{k: DEFAULT[k]})
        if fails(c):
            best = c
    f = fails(best)
    return f or failure
