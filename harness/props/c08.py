"""C08 — SMC proposals are normalised, faithfully sampled, complete, correctly weighted."""
import itertools
import math
import random
from fractions import Fraction

import numpy as np

from ..common import (DataSet, gen_values, random_canon_tree, build_tree, extract, forest_size, ckey, canon_forest,
                      make_tree_dist, KERNELS, tree_key)
from ..enumrng import dist_of, EnumRNG
from phyclone.smc.swarm import Particle, TreeHolder
from phyclone.smc.utils import RootPermutationDistribution
from phyclone.tree import Tree
from phyclone.utils.dev import clear_proposal_dist_caches

ID = "C08"
LEVEL = "proof"
THEOREMS = ["table_sum_one", "splits_inv_binom_sum", "support_complete", "sampler_eq_table", "distinctKeys_of_nodup", "weights_telescope", "recover_placement", "unique_parent", "wfParent_of_nodup"]
BUDGET = {"quick": 100, "thorough": 700}
RULE = ("parent states: none (first data point), outliers only, 1..4 top-level clones with and without outliers and nested "
        "children; next data point; three proposals; outlier proposal probability 0, 1/10, 1/5; with and without a permutation "
        "distribution; alpha in {3/10,1,7/2}. For each: log_p of every placement (built independently), the exact distribution "
        "of sample() under the enumerating generator, and particle weights are compared with the Lean model; direct oracles: "
        "probabilities sum to one, sampled = reported, support contains every placement, and the telescoping identity of "
        "weights along a full random path. Non-trivial: parent with >= 1 clone or an outlier; distinct by input digest.")
TRUSTED = ["numpy Generator.random/integers/choice/multinomial are replaced by exact enumeration"]
ASSUMPTIONS = ["data inside the underflow window of C02"]
TOL = 1e-9
KINDS = ["bootstrap", "semi-adapted", "fully-adapted"]


def logq(q):
    q = Fraction(q)
    return math.log(q.numerator) - math.log(q.denominator)


def cases(tier, rnd):
    out = []
    nrand = 240 if tier == "quick" else 1200
    for i in range(nrand):
        m = rnd.choice([0, 0, 1, 2, 3, 4, 5])  # data points already placed
        n = m + 1 + rnd.randint(0, 2)
        S, G = rnd.randint(1, 2), rnd.randint(3, 5)
        op = rnd.choice(["0/1", "1/10", "1/5"])
        vals = [gen_values(rnd, S, G, bits=3) for _ in range(n)]
        ds = DataSet(vals, Fraction(1, 5) if op != "0/1" else Fraction(0))
        parent = None
        if m > 0:
            f, o = random_canon_tree(rnd, m, outliers=(op != "0/1" and rnd.random() < 0.6), max_out=m)
            if op != "0/1" and rnd.random() < 0.15:
                f, o = [], list(range(m))  # outliers only
            parent = {"forest": f, "outs": o}
        out.append({"data": ds.to_json(), "parent": parent, "dp": m, "kind": KINDS[i % 3], "op": op,
                    "alpha": rnd.choice(["3/10", "1/1", "7/2"]), "perm": bool(i % 2), "n": n, "pseed": rnd.randrange(1 << 30)})
    # very deep data: placements whose densities differ by more than the range of a double in the linear domain (> 745 nats).
    # Outside C02's underflow window the code's likelihoods are floored by design, so the exact model is not compared; the
    # statements of the property itself are judged on the code's own numbers: probabilities sum to one, every placement has a
    # finite log-probability, draws match the reported probabilities, weights telescope.
    for i in range(30 if tier == "quick" else 200):
        m = rnd.choice([1, 2, 2, 3, 3, 4])
        n = m + 1
        S, G = rnd.randint(1, 2), rnd.randint(3, 4)
        op = rnd.choice(["0/1", "1/10"])
        # every data point has its mass at one "home" grid index per sample and is ~e^-800 elsewhere: joining a clone
        # with another home is that much less likely than joining one with the same home
        homes = [[rnd.randrange(G) for _ in range(S)] for _ in range(n)]
        if i % 2:
            homes[m] = list(homes[rnd.randrange(m)])  # the new point shares its home with one of the placed ones
        vals = [[[Fraction(rnd.randint(1, 8), 8) / (1 if g == homes[j][sm] else (1 << rnd.choice([1150, 1200]))) for g in range(G)]
                 for sm in range(S)] for j in range(n)]
        ds = DataSet(vals, Fraction(1, 5) if op != "0/1" else Fraction(0))
        f, o = random_canon_tree(rnd, m, outliers=(op != "0/1" and rnd.random() < 0.4), max_out=m)
        out.append({"data": ds.to_json(), "parent": {"forest": f, "outs": o}, "dp": m, "kind": KINDS[i % 3], "op": op,
                    "alpha": rnd.choice(["3/10", "1/1", "7/2"]), "perm": bool(i % 2), "n": n, "pseed": rnd.randrange(1 << 30), "deep": True})
    return out


def py_placements(forest, outs, dp, allow_out):
    res = []
    for j in range(len(forest)):
        f2 = [[list(d), k] for d, k in forest]
        f2[j] = [f2[j][0] + [dp], f2[j][1]]
        res.append(("existing", j, canon_forest(f2), list(outs)))
    for r in range(len(forest) + 1):
        for ch in itertools.combinations(range(len(forest)), r):
            rest = [forest[j] for j in range(len(forest)) if j not in ch]
            res.append(("new", ch, canon_forest(rest + [[[dp], [forest[j] for j in ch]]]), list(outs)))
    if allow_out:
        res.append(("outlier", None, canon_forest(forest), sorted(list(outs) + [dp])))
    return res


def real_place(parent_tree, ds, kind, arg, dp, roots_by_min):
    t = parent_tree.copy() if parent_tree is not None else Tree(ds.real[0].grid_size)
    if kind == "existing":
        t.add_data_point_to_node(ds.real[dp], roots_by_min[arg])
    elif kind == "new":
        t.create_root_node(children=[roots_by_min[j] for j in arg], data=[ds.real[dp]])
    else:
        t.add_data_point_to_outliers(ds.real[dp])
    return t


def setup(case, rng):
    ds = DataSet.from_json(case["data"])
    td = make_tree_dist(Fraction(case["alpha"]))
    perm = RootPermutationDistribution() if case["perm"] else None
    kernel = KERNELS[case["kind"]](td, rng, outlier_proposal_prob=float(Fraction(case["op"])), perm_dist=perm)
    return ds, td, perm, kernel


def parent_objects(case, ds, td, perm):
    if case["parent"] is None:
        return None, None, [], []
    f, o = case["parent"]["forest"], case["parent"]["outs"]
    pt = build_tree(ds.real, f, o)
    pp = Particle(0, None, TreeHolder(pt, td, perm), td, perm)
    labels = pt.labels
    roots_by_min = [labels[min(_alldps(node))] if not node[0] else labels[node[0][0]] for node in f]
    return pt, pp, f, o, roots_by_min


def _alldps(node):
    out = list(node[0])
    for k in node[1]:
        out += _alldps(k)
    return out


def check(ctx, case):
    clear_proposal_dist_caches()
    rng0 = EnumRNG([])
    ds, td, perm, kernel = setup(case, rng0)
    dp = case["dp"]
    op = Fraction(case["op"])
    allow_out = op != 0
    po = parent_objects(case, ds, td, perm)
    if po[0] is None:
        pt, pp, f, o, rbm = None, None, [], [], []
    else:
        pt, pp, f, o, rbm = po
    ctx.stat("kind_" + case["kind"])
    ctx.stat("parent_" + ("none" if pt is None else "outliers_only" if not f else f"roots_{len(f)}"))
    ctx.stat("op_" + case["op"])
    site = f"smc.kernels.{case['kind']}"
    pd = kernel.get_proposal_distribution(ds.real[dp], pp, pt.copy() if pt is not None else None)
    # ---- reported probabilities of every placement (built independently of the proposal) ----
    reported = {}
    weights = {}
    last = dp == ds.n - 1
    for kind, arg, cf, co in py_placements(f, o, dp, allow_out):
        t = real_place(pt, ds, kind, arg, dp, rbm)
        key = ckey(cf, co)
        if tree_key(t) != key:
            ctx.corr_fail(case, "placement built through the API differs from the intended tree", [kind, arg])
            continue
        holder = TreeHolder(t, td, perm)  # the form the samplers pass (constrained path, propose_particle)
        try:
            lq = float(pd.log_p(holder))
        except KeyError:
            lq = -math.inf
        if case["kind"] == "bootstrap" and abs(float(pd.log_p(t)) - lq) > 1e-12:
            ctx.oracle_fail(case, "bootstrap log_p differs between a tree and its holder", site + ".log_p", "tree-vs-holder")
        reported[key] = (lq, kind, cf, co)
        if lq > -math.inf:
            part = kernel.create_particle(lq, pp, t)
            lw = float(part.log_w)
            weights[key] = (lw, lw - float(part.log_p) + float(part.log_p_one), float(part.log_p), float(part.log_p_one), float(part.log_pdf))
    tot = sum(math.exp(v[0]) for v in reported.values())
    if abs(tot - 1) > 1e-9:
        ctx.oracle_fail(case, f"reported proposal probabilities sum to {tot:.12g}", site + ".log_p", "not-normalised", {"sum": tot})
    for key, (lq, kind, cf, co) in reported.items():
        if not lq > -math.inf:
            ctx.oracle_fail(case, f"placement {kind} has zero reported probability", site + ".log_p", "incomplete-support", [cf, co])
            break
    # ---- exact distribution of sample() ----
    def draw(rng):
        clear_proposal_dist_caches()
        _, _, _, k2 = setup(case, rng)
        ptree = pt.copy() if pt is not None else None
        pp2 = Particle(0, None, TreeHolder(ptree, td, perm), td, perm) if ptree is not None else None
        d2 = k2.get_proposal_distribution(ds.real[dp], pp2, ptree.copy() if ptree is not None else None)
        t = d2.sample()
        if not isinstance(t, Tree):
            t = t.tree
        return tree_key(t)

    sampled, leaves = dist_of(draw)
    ctx.stat("enumerated_leaves", leaves)
    for key in set(sampled) | set(reported):
        ps = sampled.get(key, 0.0)
        pr = math.exp(reported[key][0]) if key in reported else None
        if pr is None:
            ctx.oracle_fail(case, "sample() returned a tree that is not a placement of the data point", site + ".sample", "outside-support")
            break
        if abs(ps - pr) > 1e-9:
            ctx.oracle_fail(case, f"sample() draws placement {reported[key][1]} with probability {ps:.10g}, log_p reports {pr:.10g}",
                            site + ".sample", "sample-vs-log_p", {"tree": [reported[key][2], reported[key][3]], "sampled": ps, "reported": pr})
            break
    if case.get("deep"):
        ctx.stat("deep_data_oracles_only")
        telescoping(ctx, case, ds, td, perm)
        ctx.done(case, nontrivial=True, sample={k: case[k] for k in ("parent", "dp", "kind", "op", "alpha", "perm")})
        return
    # ---- correspondence with the model ----
    req = {"op": "prop", "data": case["data"], "cfg": {"kind": case["kind"], "op": case["op"], "alpha": case["alpha"], "perm": case["perm"]},
           "first": pt is None, "last": last, "parent": {"forest": f, "outs": o}, "dp": dp}
    ans = ctx.ask(req)
    mtab = {ckey(t[0], t[1]): (Fraction(q), Fraction(w)) for t, q, w in ans["table"]}
    msam = {ckey(t[0], t[1]): Fraction(q) for t, q in ans["sampler"]}
    live = {k: v for k, v in reported.items() if v[0] > -math.inf}
    if set(mtab) != set(live):
        ctx.corr_fail(case, "model table support differs from the code's", {"model": len(mtab), "code": len(live)})
    else:
        for key, (q, w) in mtab.items():
            if abs(logq(q) - live[key][0]) > TOL:
                ctx.corr_fail(case, f"log_p of placement {live[key][1]}", {"code": live[key][0], "model": logq(q), "tree": [live[key][2], live[key][3]]})
                break
            lw = weights[key][1] if last else weights[key][0]
            if abs(logq(w) - lw) > TOL:
                ctx.corr_fail(case, f"particle weight of placement {live[key][1]}", {"code": lw, "model": logq(w)})
                break
    for key in set(msam) | set(sampled):
        if abs(float(msam.get(key, 0)) - sampled.get(key, 0.0)) > 1e-9:
            ctx.corr_fail(case, "sampler distribution differs from the model", {"code": sampled.get(key), "model": str(msam.get(key))})
            break
    # ---- telescoping identity along a full random path (independent oracle) ----
    telescoping(ctx, case, ds, td, perm)
    ctx.done(case, nontrivial=(pt is not None and (len(f) >= 1 or len(o) >= 1)),
             sample={k: case[k] for k in ("parent", "dp", "kind", "op", "alpha", "perm")})


def telescoping(ctx, case, ds, td, perm):
    """Place all data points one after another along a random path; the sum of incremental log weights and
    log proposal probabilities (with the last-step correction) must equal log_p_one + log_pdf of the final tree."""
    rnd = random.Random(case["pseed"])
    clear_proposal_dist_caches()
    kernel = KERNELS[case["kind"]](td, EnumRNG([]), outlier_proposal_prob=float(Fraction(case["op"])), perm_dist=perm)
    allow_out = Fraction(case["op"]) != 0
    f, o = [], []
    pt, pp = None, None
    total = 0.0
    for dp in range(ds.n):
        kind, arg, cf, co = rnd.choice(py_placements(f, o, dp, allow_out))
        if pt is not None:
            labels = pt.labels
            rbm = [labels[node[0][0]] for node in f]
        else:
            rbm = []
        t = real_place(pt, ds, kind, arg, dp, rbm)
        pd = kernel.get_proposal_distribution(ds.real[dp], pp, pt.copy() if pt is not None else None)
        lq = float(pd.log_p(TreeHolder(t, td, perm)))
        part = kernel.create_particle(lq, pp, t)
        lw = float(part.log_w)
        if dp == ds.n - 1:
            lw = lw - float(part.log_p) + float(part.log_p_one)
        total += lw + lq
        f, o = extract(t)
        pt, pp = t, part
    want = float(td.log_p_one(pt)) + (float(perm.log_pdf(pt)) if perm is not None else 0.0)
    if abs(total - want) > 1e-8:
        ctx.oracle_fail(case, f"weights and proposal probabilities along a path multiply to exp({total:.10g}), target is exp({want:.10g})",
                        "smc.kernels.base.Kernel.create_particle", "telescoping", {"final": [f, o], "path_sum": total, "target": want})


def search(ctx, failed, rnd, deadline):
    import time

    class Null:
        def ask(self, req):
            raise RuntimeError

    for c in failed + cases("quick", rnd):
        if time.time() > deadline:
            break
        sub = type(ctx)(ctx.pid, ctx.tier, ctx.seed, Null())
        try:
            check(sub, c)
        except Exception:
            pass
        ctx.evaluations += 1
        ctx.oracle_failures += sub.oracle_failures
        if sub.oracle_failures:
            return
