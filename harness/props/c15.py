"""C15 — trees survive serialisation; trace entries are self-consistent.

Kinds of cases
* `dict`  : a real `Tree` reached by a random edit history (SMC-style placements, data-point moves,
            get/remove/add_subtree so that graph indices have holes, relabel_nodes, copy, outliers, outlier-only
            trees, the empty tree) is taken through four serialisation routes — `Tree.from_dict(t.to_dict())`,
            `pickle.dumps/loads` of the dict, the gzip pickle written by `create_main_run_output` and read the way
            the readers do, `TreeHolder(tree, tree_dist, perm_dist).tree` — and compared with the original
            (direct oracle); the same further random edits are then applied to the original and to every
            restored copy and compared after each; aliasing between tree, dict and restored tree is probed.
            Correspondence: the store model (`c15_rt`) gets the real tree's description and the real dict.
* `loop`  : the real `run.py:_run_burnin` + `_run_main_sampler` with stub samplers (seeded random edits that keep
            all data), a stub concentration sampler and a programmable clock: large grids of (num_iters, thin,
            burnin, max_time, concentration update) are cheap.
* `chain` : the real `run_phyclone_chain` in-process (real samplers, tiny data, few particles), clock patched.
* `cli`   : `phyclone run` in a subprocess, 1-2 chains; the gzip pickle it writes is read back.
For the last three every trace entry is judged by the direct oracle (restores, holds all data exactly once,
`log_p_one` recomputed under the entry's alpha, alpha is the value in force after that iteration's update,
names are the relabelled ones, iteration numbers = the property's schedule, times non-decreasing) and compared
with the Lean run-loop model (`c15_sched`, `c15_trace`).
"""
import contextlib
import gzip
import io
import math
import os
import pickle
import random
import subprocess
import sys
import tempfile
import time
import traceback
import warnings
from fractions import Fraction

import numpy as np

from ..common import gen_dataset, DataSet, extract, WFError, fr, random_canon_tree, build_tree

import phyclone.run as prun
from phyclone.tree import Tree, FSCRPDistribution, TreeJointDistribution
from phyclone.smc.swarm.tree_holder import TreeHolder
from phyclone.smc.utils import RootPermutationDistribution
from phyclone.process_trace import create_main_run_output
from phyclone.utils import Timer

ID = "C15"
LEVEL = "proof"
THEOREMS = ["fromDict_toDict", "fromDict_toDict_wfd", "fromDict_toDict_eq", "roundtrip_fixed_point", "roundtrip_edits_commute",
            "trace_schedule", "trace_schedule_timed", "entry_after_update", "entry_consistent", "entry_data_complete"]
BUDGET = {"quick": 100, "thorough": 600}
MAX_JOBS = 14
SEARCH_BUDGET = 60
TOL = 1e-9
EXPLANATION = (
    "Proved in Lean on the store model (Model/Store.lean, Model/DictRT.lean) for every store satisfying the shared invariants of "
    "C06/C07 (Proofs/StoreInv.lean: WF, Full, CacheOK) plus the payload-order normalisation Aligned - and more generally the "
    "weaker explicit invariant WFd they imply (distinct non-zero graph indices with arbitrary gaps and order, both index maps "
    "cover the payloads, every clone has a _data entry listing exactly its payload's data points, no foreign _data keys, valid "
    "cache): from_dict(to_dict(s)) succeeds "
    "and returns the same payload forest, maps, _data, last-added clone, cached vectors and both densities (literally the same "
    "store whenever the tree has a clone or the root vector is current; on a clone-less tree only the never-read root vector is "
    "recomputed), the result is a fixed point of the round trip, and a round trip in the middle of any edit history changes the "
    "result of no continuation.  Proved on the run-loop model (Model/RunLoop.lean, Model/TraceLoop.lean) for every num_iters, "
    "thin >= 1, burn-in, time limit, every outcome of the samplers / concentration draws / clock: the trace is the post-burn-in "
    "entry followed by exactly the iterations j < m of range(num_iters) with j % thin = 0 in order, m = num_iters unless the "
    "limit fired in iteration m-1 and in none before; every entry is built from the state after relabel_nodes and the "
    "concentration update, restores, and log_p_one of the restored tree under the entry's alpha is the recorded value; with "
    "data conservation every entry holds all data exactly once.  The entry theorems take 'the samplers followed by relabel_nodes "
    "preserve the invariants / data completeness' as an explicit hypothesis (that is C06/C07's wf_step / cacheOK_step on the same "
    "store model); the check evaluates the executable forms (wfdB, and wfShB && fullB && cacheOKB && alignedB) on every real tree "
    "it reaches.  Model and code are tied by: the model rebuilding the store from the real "
    "to_dict() output (per-clone log_p/log_r, root vector, log_p, log_p_one, labels), the model's trace loop run on the real "
    "chain's per-iteration trees and concentration draws (entry dicts incl. relabelled names and _data order, alpha, log_p_one), "
    "and the schedule under a programmable clock.")
RULE = ("dict (510 quick / 12010 thorough, a third of the thorough ones with 6-11 data points and histories of 20-60 ops): data sets of 3-8 exact dyadic data points (1-2 samples, grid 3-5, outlier prior 0 or 1/4), edit histories of 0-25 "
        "ops from {place in existing clone / new clone above a subset of roots / outlier, move a data point, prune a subtree "
        "(parked or regrafted under a random clone or the root), relabel_nodes, copy, dict round trip, update}, then 4 routes x "
        "3-6 further lockstep edits (always including relabel + create_root_node so a freed graph index is re-allocated) and "
        "aliasing probes; fixed corner cases: empty tree, outlier-only trees, single clone, deep chain, star, tree with 3 holes.  "
        "loop: full grid num_iters {0..9,12,20} x thin {1,2,3,4,7} x burnin {0,1,3} x max_time {inf, 0, k, k+1/2 for k up to "
        "burnin+num_iters+1} (sampled in quick, unit iteration durations, so limits hit in burn-in, exactly at the boundary of `>` "
        "vs `>=`, mid-run and never) x concentration update on/off x subtree prob.  chain: proposal x outliers on/off x "
        "concentration update x thin {1,2,3} x num_iters {1..5} x max_time patterns, 3-5 data points, 2-3 particles.  cli: 3 runs "
        "quick / 7 thorough incl. 2 chains, thin not dividing num_iters, --max-time 0, --no-concentration-update.  A dict case "
        "is non-trivial when the tree has >= 2 clones and either an index hole, an outlier or a non-identity name/index map; a "
        "trace case when it records >= 3 entries.  Distinct = distinct case digest.")
TRUSTED = ["pickle and gzip are exercised, not modelled (the Lean dictionary is the value handed to pickle)",
           "rustworkx edge_list()/extend_from_edge_list/remove_nodes_from/successors: the model reads children off the edge list in "
           "edge order; the real child order may differ and is compared as a set (the likelihood is order-independent, C02)",
           "the patched clock (a counter) stands in for time.time in loop/chain cases; CLI cases use the real clock with limits "
           "inf and 0 only, where any positive iteration duration gives the same schedule"]
ASSUMPTIONS = ["'reachable tree' = reachable through the public editing API the way the samplers use it (Legal of Proofs/StoreInv.lean): every "
               "clone is created with at least one data point (a clone that never received data has no _data entry and does not "
               "restore: from_dict leaves its payload None; no sampler creates such a clone), and create_root_node - which names the "
               "new clone num_nodes - is only called on trees built by placements alone or relabelled since the last prune / graft "
               "(on a pruned, un-relabelled tree it can re-use a live name; which names survive a prune depends on the stored child "
               "order, so there original and restored copy may legitimately differ)",
               "after a round trip the stored order of a clone's children may be permuted (edge_list order vs adjacency order): names "
               "handed out by a later relabel_nodes / add_subtree agree up to that permutation; directly after restoring, names, labels "
               "and node_last_added_to must be identical, after further edits clones are matched by the data they hold",
               "likelihood equalities on exact dyadic data inside the underflow window (values >= 1/8, <= 8 data points)",
               "graph indices of nodes created after a round trip may differ between original and restored copy (rustworkx "
               "free-list order); compared up to that renaming, names must agree"]
SITE_FD = "tree/tree.py:Tree.from_dict"
SITE_TR = "run.py:append_to_trace"
SITE_LOOP = "run.py:_run_main_sampler"


# ------------------------------------------------------------------------------- small helpers
def logq(q):
    q = Fraction(q)
    return math.log(q.numerator) - math.log(q.denominator)


def close(a, b, tol=TOL):
    a, b = float(a), float(b)
    if math.isinf(a) or math.isinf(b):
        return a == b
    return abs(a - b) <= tol * max(1.0, abs(a), abs(b))


def arr_close(a, b, tol=TOL):
    a, b = np.asarray(a, dtype=float), np.asarray(b, dtype=float)
    return a.shape == b.shape and bool(np.all(np.abs(a - b) <= tol * np.maximum(1.0, np.abs(a))))


def make_dist(alpha):
    return TreeJointDistribution(FSCRPDistribution(float(alpha)))


def name_key(x):
    return (0, x) if isinstance(x, (int, np.integer)) else (1, str(x))


# ------------------------------------------------------------------------------- observables of a real tree
def observe(tree, alpha):
    """Everything the property lists, keyed by node *name* (graph indices may legitimately differ after an
    allocation on a restored copy).  Raises WFError when the tree is not a well-formed forest."""
    forest, outs = extract(tree)
    g = tree._graph
    per = {}
    for idx in g.node_indices():
        nd = g[idx]
        if nd.node_id == tree._ROOT_NODE_NAME:
            continue
        per[nd.node_id] = (sorted(nd.data_points), nd.log_p.copy(), nd.log_r.copy(),
                           sorted((g[c].node_id for c in g.successor_indices(idx)), key=name_key))
    nd_data = {k: sorted(d.idx for d in v) for k, v in tree._data.items() if k != tree._ROOT_NODE_NAME and (len(v) > 0 or k in per)}
    # name-independent view: a clone is identified by the smallest data index it holds itself
    anc = {nm: (min(v[0]) if v[0] else ("empty", nm)) for nm, v in per.items()}
    per_anchor = {anc[nm]: (v[0], v[1], v[2], sorted((anc[c] for c in v[3]), key=repr)) for nm, v in per.items()}
    td = make_dist(alpha)
    with warnings.catch_warnings():
        warnings.simplefilter("ignore")
        lp, lp1 = td.log_p(tree), td.log_p_one(tree)
    return {
        "forest": forest, "outs": outs, "labels": dict(tree.labels), "nodes": sorted(tree.nodes, key=name_key),
        "roots": sorted(tree.roots, key=name_key), "last": tree.node_last_added_to, "per": per, "node_data": nd_data,
        "root_r": tree.data_log_likelihood.copy() if len(per) else None, "log_p": lp, "log_p_one": lp1,
        "n_nodes": tree.get_number_of_nodes(), "per_anchor": per_anchor,
    }


def diff_obs(a, b, strict=True):
    """First difference between two observations (None = same).  `strict`: node names must agree (directly after
    restoring); otherwise clones are matched by the smallest data index they hold (after further edits the names
    `relabel_nodes` / `add_subtree` hand out follow the stored child order, which a round trip may permute)."""
    for k in (("forest", "outs", "labels", "nodes", "roots", "last", "node_data", "n_nodes") if strict else ("forest", "outs", "n_nodes")):
        if a[k] != b[k]:
            return f"{k}: {a[k]!r} vs {b[k]!r}"
    key = "per" if strict else "per_anchor"
    if set(a[key]) != set(b[key]):
        return f"clones {sorted(a[key], key=repr)} vs {sorted(b[key], key=repr)}"
    for nm in a[key]:
        da, pa, ra, ka = a[key][nm]
        db, pb, rb, kb = b[key][nm]
        if da != db:
            return f"clone {nm}: data points {da} vs {db}"
        if ka != kb:
            return f"clone {nm}: children {ka} vs {kb}"
        if not arr_close(pa, pb):
            return f"clone {nm}: log_p differs by {float(np.max(np.abs(pa - pb))):.3g}"
        if not arr_close(ra, rb):
            return f"clone {nm}: log_r differs by {float(np.max(np.abs(ra - rb))):.3g}"
    if (a["root_r"] is None) != (b["root_r"] is None):
        return "root vector present on one side only"
    if a["root_r"] is not None and not arr_close(a["root_r"], b["root_r"]):
        return "root log_r differs"
    for k in ("log_p", "log_p_one"):
        if not close(a[k], b[k]):
            return f"{k}: {a[k]!r} vs {b[k]!r}"
    return None


def dict_fingerprint(d):
    """Value of a tree dict, independent of object identity (aliasing probe)."""
    return (sorted(map(tuple, d["graph"])), sorted(d["node_idx"].items(), key=lambda kv: name_key(kv[0])),
            sorted(d["node_idx_rev"].items()), sorted(((k, [p.idx for p in v]) for k, v in d["node_data"].items()), key=lambda kv: name_key(kv[0])),
            tuple(d["grid_size"]), d.get("node_last_added_to", "<missing>"))


# ------------------------------------------------------------------------------- edit worlds
class World:
    """A tree handle plus the subtrees pruned from it and not (yet) re-attached."""

    def __init__(self, tree, parked=None, smc_ok=True):
        self.tree = tree
        self.parked = list(parked or [])
        # clones are created (create_root_node names them num_nodes) only in trees built by placements alone or
        # relabelled since the last prune / graft, as in the samplers (`Legal` of Proofs/StoreInv.lean); which names
        # survive a prune depends on the names relabel_nodes handed out, i.e. on the stored child order
        self.smc_ok = smc_ok

    def clone(self, tree):
        return World(tree, [p.copy() for p in self.parked], self.smc_ok)


def _is_ref(x):
    return isinstance(x, (list, tuple)) and len(x) == 2 and x[0] == "@"


def anchor_op(tree, op):
    """Replace node names by references `("@", smallest own data index)` so that the op means the same clone on a
    copy whose names differ."""
    def A(nm):
        return nm if nm is None or _is_ref(nm) else ("@", min(d.idx for d in tree._data[nm]))

    k = op[0]
    if k == "new":
        return ("new", op[1], [A(c) for c in op[2]])
    if k in ("add", "rm"):
        return (k, op[1], A(op[2]))
    if k == "prune":
        return ("prune", A(op[1]))
    if k == "graft":
        return ("graft", op[1], A(op[2]))
    return op


def resolve_op(tree, op):
    def R(x):
        return tree.labels[x[1]] if _is_ref(x) else x

    k = op[0]
    if k == "new":
        return ("new", op[1], [R(c) for c in op[2]])
    if k in ("add", "rm"):
        return (k, op[1], R(op[2]))
    if k == "prune":
        return ("prune", R(op[1]))
    if k == "graft":
        return ("graft", op[1], R(op[2]))
    return op


def apply_op(w, op, data):
    """One edit on a world; exceptions propagate (they must agree between original and restored copies)."""
    op = resolve_op(w.tree, op)
    t, k = w.tree, op[0]
    if k == "new":
        t.create_root_node(children=list(op[2]), data=[data[i] for i in op[1]])
    elif k == "add":
        t.add_data_point_to_node(data[op[1]], op[2])
    elif k == "out":
        t.add_data_point_to_outliers(data[op[1]])
    elif k == "rm":
        t.remove_data_point_from_node(data[op[1]], op[2])
    elif k == "rmout":
        t.remove_data_point_from_outliers(data[op[1]])
    elif k == "prune":
        sub = t.get_subtree(op[1])
        t.remove_subtree(sub)
        w.parked.append(sub)
        w.smc_ok = False
    elif k == "graft":
        sub = w.parked.pop(op[1])
        t.add_subtree(sub, op[2])
        w.smc_ok = False
    elif k == "prune_whole":
        sub = t.get_subtree(t.root_node_name)
        t.remove_subtree(sub)
        w.parked.append(sub)
    elif k == "relabel":
        t.relabel_nodes()
        w.smc_ok = True
    elif k == "copy":
        w.tree = t.copy()
    elif k == "rt":
        w.tree = Tree.from_dict(t.to_dict())
    elif k == "update":
        t.update()
    else:
        raise ValueError(op)


def placed(w):
    s = set(w.tree.labels)
    for p in w.parked:
        s |= set(p.labels)
    return s


def dense(t):
    """names are exactly 0..K-1: a statement about the *set* of names, so it holds of a copy whose names are permuted too"""
    return sorted(t.nodes, key=name_key) == list(range(t.get_number_of_nodes()))


def gen_op(rnd, w, n, outliers_on, force=None):
    """A random edit that is legal on `w` (mirrors what the samplers do); None if the kind is impossible."""
    t = w.tree
    nodes = list(t.nodes)
    free = [i for i in range(n) if i not in placed(w)]
    kinds = ["place"] * 4 + ["move"] * 3 + ["prune"] * 2 + ["graft"] * 3 + ["relabel", "copy", "rt", "update"]
    kind = force or rnd.choice(kinds)
    if kind == "place":
        if not free:
            return None
        dp = rnd.choice(free)
        r = rnd.random()
        if nodes and r < 0.3:
            return ("add", dp, rnd.choice(nodes))
        if outliers_on and r < 0.42:
            return ("out", dp)
        if nodes and not (w.smc_ok and dense(t)):  # create_root_node names the clone num_nodes: the samplers only create clones in trees whose
            return ("add", dp, rnd.choice(nodes))  # names are 0..K-1 (`Legal` / `Dense` of Proofs/StoreInv.lean)
        return ("new", [dp], sorted(rnd.sample(t.roots, rnd.randint(0, len(t.roots))), key=name_key))
    if kind == "new":
        if not free or (nodes and not (w.smc_ok and dense(t))):
            return None  # only legal when the names are 0..K-1 (after relabel_nodes or pure SMC placements)
        dp = rnd.choice(free)
        roots = t.roots
        return ("new", [dp], sorted(rnd.sample(roots, rnd.randint(0, len(roots))), key=name_key))
    if kind == "move":
        src = [(nm, [d.idx for d in t._data[nm]]) for nm in nodes if len(t._data[nm]) >= 2]
        outs = [d.idx for d in t.outliers]
        if outs and (not src or rnd.random() < 0.3):
            return ("rmout", rnd.choice(outs))
        if not src:
            return None
        nm, dl = rnd.choice(src)
        return ("rm", rnd.choice(dl), nm)
    if kind == "prune":
        if len(nodes) < 2:
            return None
        return ("prune", rnd.choice(nodes))
    if kind == "graft":
        if not w.parked:
            return None
        return ("graft", rnd.randrange(len(w.parked)), rnd.choice([None] + nodes))
    return (kind,)


def gen_history(rnd, n, length, outliers_on, data):
    """Build the history on a scratch world so that every op is legal when it is replayed."""
    w = World(Tree(data[0].grid_size))
    ops = []
    # phase 1: SMC-style placements of most data points; phase 2: arbitrary edits
    plan = ["place"] * rnd.randint(min(2, n), n) + [None] * length
    for force in plan:
        try:
            op = gen_op(rnd, w, n, outliers_on, force)
            if op is None:
                continue
            ops.append(op)
            apply_op(w, op, data)
        except Exception:
            break  # never expected on the unchanged code; the replay in check() reports what happened
    return ops


def jsonable_op(op):
    return [list(x) if isinstance(x, (list, tuple)) else x for x in op]


# ------------------------------------------------------------------------------- description for the model
def describe(tree):
    """Real tree -> request fields of the `c15_rt` / `c15_trace` ops (payload order = `_data` order)."""
    g = tree._graph
    root = tree._node_indices[tree._ROOT_NODE_NAME]

    def go(idx):
        out = []
        for c in g.successor_indices(idx):
            nm = g[c].node_id
            out.append([int(c), int(nm), [d.idx for d in tree._data.get(nm, [])], go(c)])
        return out

    return {
        "nodes": go(root),
        "node_idx": [[int(k), int(v)] for k, v in tree._node_indices.items() if k != tree._ROOT_NODE_NAME],
        "node_idx_rev": [[int(k), int(v)] for k, v in tree._node_indices_rev.items() if v != tree._ROOT_NODE_NAME],
        "node_data": [[int(k), [d.idx for d in v]] for k, v in tree._data.items() if k != tree._ROOT_NODE_NAME],
        "last": None if tree._last_node_added_to is None else int(tree._last_node_added_to),
    }


def describe_dict(d):
    """The same fields read from a tree dict (what `from_dict` is handed)."""
    return {
        "edges": [[int(a), int(b)] for a, b in d["graph"]],
        "node_idx": [[int(k), int(v)] for k, v in d["node_idx"].items() if k != "root"],
        "node_idx_rev": [[int(k), int(v)] for k, v in d["node_idx_rev"].items() if v != "root"],
        "node_data": [[int(k), [p.idx for p in v]] for k, v in d["node_data"].items() if k != "root"],
        "last": None if d.get("node_last_added_to") is None else int(d["node_last_added_to"]),
    }


def flat_model_nodes(nodes, out=None):
    out = {} if out is None else out
    for nd in nodes:
        out[nd["idx"]] = nd
        flat_model_nodes(nd["kids"], out)
    return out


def compare_model_store(ms, tree, alpha, what):
    """Model store (JSON of `jStore15`) vs a real tree; returns a list of differences."""
    errs = []
    g = tree._graph
    mn = flat_model_nodes(ms["nodes"])
    real = {int(i): g[i] for i in g.node_indices() if g[i].node_id != tree._ROOT_NODE_NAME}
    if set(mn) != set(real):
        return [f"{what}: graph indices model {sorted(mn)} vs code {sorted(real)}"]
    for idx, nd in mn.items():
        r = real[idx]
        if nd["name"] != r.node_id:
            errs.append(f"{what}: index {idx} name model {nd['name']} vs code {r.node_id}")
        if sorted(nd["dps"]) != sorted(r.data_points):
            errs.append(f"{what}: index {idx} data model {nd['dps']} vs code {sorted(r.data_points)}")
        if sorted(k["idx"] for k in nd["kids"]) != sorted(int(c) for c in g.successor_indices(idx)):
            errs.append(f"{what}: index {idx} children differ")
        for key, arr in (("p", r.log_p), ("r", r.log_r)):
            for s, row in enumerate(nd[key]):
                for k, q in enumerate(row):
                    if not close(arr[s, k], logq(q)):
                        errs.append(f"{what}: index {idx} log_{key}[{s},{k}] model {logq(q)} vs code {float(arr[s, k])}")
                        break
    if mn:
        rr = tree.data_log_likelihood
        for s, row in enumerate(ms["root"]):
            for k, q in enumerate(row):
                if not close(rr[s, k], logq(q)):
                    errs.append(f"{what}: root vector [{s},{k}]")
                    break
    if {int(a): b for a, b in ms["labels"]} != {int(k): v for k, v in tree.labels.items()}:
        errs.append(f"{what}: labels model {ms['labels']} vs code {tree.labels}")
    if ms["last"] != tree.node_last_added_to:
        errs.append(f"{what}: last-added model {ms['last']} vs code {tree.node_last_added_to}")
    td = make_dist(alpha)
    with warnings.catch_warnings():
        warnings.simplefilter("ignore")
        for key, v in (("pOne", td.log_p_one(tree)), ("pMarg", td.log_p(tree))):
            if Fraction(ms[key]) <= 0 or not close(v, logq(ms[key])):
                errs.append(f"{what}: {key} model {ms[key]} vs code {v}")
    return errs[:4]


# ------------------------------------------------------------------------------- routes
def restore_routes(tree, data, alpha, tmpdir):
    """-> {route: tree or exception}"""
    out = {}

    def attempt(name, f):
        try:
            out[name] = f()
        except Exception as e:  # judged by the caller
            out[name] = e

    attempt("dict", lambda: Tree.from_dict(tree.to_dict()))
    attempt("pickle", lambda: Tree.from_dict(pickle.loads(pickle.dumps(tree.to_dict()))))

    def via_file():
        path = os.path.join(tmpdir, "t.pkl.gz")
        entry = {"iter": 0, "time": 0.0, "alpha": float(alpha), "log_p_one": 0.0, "tree": tree.to_dict()}
        create_main_run_output(None, path, {0: {"data": data, "samples": ["s"], "trace": [entry], "chain_num": 0}})
        with gzip.GzipFile(path, "rb") as fh:  # the readers' way (process_trace.py)
            res = pickle.load(fh)
        return Tree.from_dict(res[0]["trace"][0]["tree"])

    attempt("gzip", via_file)
    last = tree.node_last_added_to
    if last is not None and (last == tree.outlier_node_name or last in tree._node_indices):
        attempt("holder", lambda: TreeHolder(tree, make_dist(alpha), RootPermutationDistribution()).tree)
    return out


# ------------------------------------------------------------------------------- dict cases
def check_dict(ctx, case):
    ds = DataSet.from_json(case["data"])
    data, n = ds.real, ds.n
    alpha = Fraction(case["alpha"])
    rnd = random.Random(case["seed"])
    w = World(Tree(data[0].grid_size))
    for op in case["ops"]:
        try:
            apply_op(w, tuple(op), data)
        except Exception as e:
            if op[0] == "rt":
                ctx.oracle_fail(case, "a dictionary round trip inside the edit history raised", SITE_FD, f"restore-raised:history:{type(e).__name__}",
                                "".join(traceback.format_exception_only(type(e), e))[:400])
            else:
                ctx.corr_fail(case, "harness: history op is not legal on the real tree", f"{op}: {type(e).__name__}: {e}")
            ctx.done(case, nontrivial=False)
            return
    t = w.tree
    try:
        o0 = observe(t, alpha)
    except Exception as e:
        rt_in = any(op[0] == "rt" for op in case["ops"])
        ctx.oracle_fail(case, "tree reached by the edit history is not well formed" + (" (the history contains a dictionary round trip)" if rt_in else ""),
                        SITE_FD if rt_in else "tree/tree.py:Tree", "not-well-formed:" + type(e).__name__, str(e)[:400])
        ctx.done(case, nontrivial=False)
        return
    idxs = sorted(int(i) for i in t._graph.node_indices())
    holes = idxs != list(range(len(idxs)))
    ctx.stat(f"clones={min(o0['n_nodes'], 6)}")
    ctx.stat("index_holes" if holes else "no_holes")
    if o0["outs"]:
        ctx.stat("with_outliers")
    if o0["n_nodes"] == 0:
        ctx.stat("outlier_only" if o0["outs"] else "empty_tree")
    d0 = t.to_dict()
    fp0 = dict_fingerprint(d0)

    # ---- the four routes, each compared with the original, then edited in lockstep with it
    with tempfile.TemporaryDirectory(prefix="c15_") as tmp:
        routes = restore_routes(t, data, alpha, tmp)
    later = []
    scratch = w.clone(t.copy())
    # always: relabel (names become 0..K-1), then a new clone (allocates a graph index: a hole is re-used)
    forced = ["relabel", "new"] if case.get("lockstep", True) else []
    for k in range(case.get("n_later", 4)):
        op = gen_op(rnd, scratch, n, ds.outlier_prob > 0, forced[k] if k < len(forced) else None)
        if op is None:
            continue
        op = anchor_op(scratch.tree, op)
        try:
            apply_op(scratch, op, data)
        except Exception:
            continue
        later.append(op)
    worlds = {}
    for name, r in routes.items():
        ctx.stat("route_" + name)
        if isinstance(r, Exception):
            ctx.oracle_fail(case, f"route {name}: restoring the tree raised", SITE_FD, f"restore-raised:{name}:{type(r).__name__}",
                            "".join(traceback.format_exception_only(type(r), r))[:400])
            continue
        try:
            df = diff_obs(o0, observe(r, alpha))
        except WFError as e:
            df = "restored tree not well formed: " + str(e)
        except Exception as e:
            df = f"restored tree cannot be inspected: {type(e).__name__}: {e}"
        if df:
            ctx.oracle_fail(case, f"route {name}: restored tree differs from the original", SITE_FD, f"restored-differs:{name}:" + df.split(":")[0], df)
            continue
        worlds[name] = w.clone(r)
    if dict_fingerprint(d0) != fp0:
        ctx.oracle_fail(case, "restoring from the dictionary changed the dictionary", SITE_FD, "alias:from_dict-mutates-dict")
    ref = w.clone(t.copy())
    for step, op in enumerate(later):
        exc_ref = None
        try:
            apply_op(ref, op, data)
            o_ref = observe(ref.tree, alpha)
        except Exception as e:
            exc_ref = e
        for name, wr in list(worlds.items()):
            try:
                apply_op(wr, op, data)
                o_r = observe(wr.tree, alpha)
                if exc_ref is not None:
                    ctx.oracle_fail(case, f"route {name}: edit {op} fails on the original but not on the restored copy", SITE_FD,
                                    f"edit-diverges:{name}:{op[0]}", repr(exc_ref))
                    del worlds[name]
                    continue
                df = diff_obs(o_ref, o_r, strict=False)
            except Exception as e:
                if exc_ref is not None and type(e) is type(exc_ref):
                    continue
                df = f"{type(e).__name__}: {e}"
            if df:
                ctx.oracle_fail(case, f"route {name}: after further edit #{step} {op} the restored copy differs from the original", SITE_FD,
                                f"edit-diverges:{name}:{op[0]}", df)
                del worlds[name]
        if exc_ref is not None:
            break
    ctx.stat("later_edits", len(later))

    # ---- aliasing: tree <-> dict <-> restored tree
    try:
        d1 = t.to_dict()
        fp1 = dict_fingerprint(d1)
        r1 = Tree.from_dict(d1)
        o_t = observe(t, alpha)
        wa = w.clone(r1)
        sa = w.clone(t.copy())
        n_mut = 0
        for _ in range(6):
            op = gen_op(rnd, sa, n, ds.outlier_prob > 0, rnd.choice(["place", "move", "move", "prune", "relabel"]))
            if op is None or op[0] in ("copy", "rt"):
                continue
            op = anchor_op(sa.tree, op)
            try:
                apply_op(sa, op, data)
                apply_op(wa, op, data)
                n_mut += 1
            except Exception:
                break
        if n_mut:
            if dict_fingerprint(d1) != fp1:
                ctx.oracle_fail(case, "editing the restored tree changed the dictionary it was built from", SITE_FD, "alias:restored-shares-dict")
            df = diff_obs(o_t, observe(t, alpha))
            if df:
                ctx.oracle_fail(case, "editing the restored tree changed the original tree", SITE_FD, "alias:restored-shares-tree", df)
        # the other direction: edit the original, the dict and a tree restored earlier must not move
        d2 = t.to_dict()
        fp2 = dict_fingerprint(d2)
        r2 = Tree.from_dict(d2)
        o_r2 = observe(r2, alpha)
        wt = w.clone(t)
        n_mut = 0
        for _ in range(6):
            op = gen_op(rnd, wt, n, ds.outlier_prob > 0, rnd.choice(["place", "move", "move", "relabel"]))
            if op is None or op[0] in ("copy", "rt"):
                continue
            try:
                apply_op(wt, op, data)
                n_mut += 1
            except Exception:
                break
        if n_mut:
            if dict_fingerprint(d2) != fp2:
                ctx.oracle_fail(case, "editing the tree changed a dictionary taken from it earlier", "tree/tree.py:Tree.to_dict", "alias:dict-shares-tree")
            df = diff_obs(o_r2, observe(r2, alpha))
            if df:
                ctx.oracle_fail(case, "editing the tree changed a copy restored from its dictionary", SITE_FD, "alias:restored-shares-tree", df)
        t = None  # `t` has been edited; not used below
    except WFError as e:
        ctx.oracle_fail(case, "aliasing probe: a tree became ill-formed", SITE_FD, "alias:not-well-formed", str(e))

    # ---- correspondence with the store model (on the state the history reached; rebuilt because `t` was edited)
    if ctx.lean is not None:
        w2 = World(Tree(data[0].grid_size))
        for op in case["ops"]:
            apply_op(w2, tuple(op), data)
        model_dict_compare(ctx, case, ds, w2.tree, alpha)
    ctx.done(case, nontrivial=bool(o0["n_nodes"] >= 2 and (holes or o0["outs"] or any(int(k) + 1 != int(v) for k, v in d0["node_idx"].items() if k != "root"))),
             sample={"forest": o0["forest"], "outs": o0["outs"], "graph_indices": idxs, "names": o0["nodes"], "later": [jsonable_op(o) for o in later]})


def model_dict_compare(ctx, case, ds, t, alpha):
    d = t.to_dict()
    desc, dd = describe(t), describe_dict(d)
    if {k: dd[k] for k in ("node_idx", "node_idx_rev", "node_data", "last")} != {k: desc[k] for k in ("node_idx", "node_idx_rev", "node_data", "last")}:
        ctx.corr_fail(case, "to_dict() does not copy the maps / _data / last-added of the tree", {"dict": dd, "tree": desc})
        return
    ans = ctx.ask({"op": "c15_rt", "data": ds.to_json(), "alpha": fr(alpha), "n": ds.n, "store": desc, "edges": dd["edges"]})
    if not (ans["wfd"] and ans["shared"]):
        ctx.corr_fail(case, "a reachable real tree does not satisfy the hypotheses of the round-trip theorem (WFd / WF, Full, CacheOK, Aligned)",
                      {"wfd": ans["wfd"], "shared": ans["shared"], "tree": desc})
        return
    if sorted(map(tuple, ans["dict"]["edges"])) != sorted(map(tuple, dd["edges"])):
        ctx.corr_fail(case, "edge list of to_dict differs from the model's toDict", {"code": dd["edges"], "model": ans["dict"]["edges"]})
    if not (ans["rt_ok"] and ans["rt_eq_norm"]):
        ctx.corr_fail(case, "model: fromDict (toDict s) is not normRoot s on a WFd store (theorem instance fails?)", ans["rt_ok"])
    errs = compare_model_store(ans["orig"], t, alpha, "original")
    try:
        r = Tree.from_dict(d)
    except Exception as e:
        if ans["rt_real"] is not None:
            ctx.corr_fail(case, "from_dict raised where the model restores", f"{type(e).__name__}: {e}")
        return
    if ans["rt_real"] is None:
        ctx.corr_fail(case, "model's fromDict fails on a dictionary the code restores", dd)
        return
    errs += compare_model_store(ans["rt_real"], r, alpha, "restored")
    if not (ans["rt_real"]["wfd"] and ans["rt_real"]["shared"]):
        errs.append("restored model store does not satisfy the invariants")
    for e in errs:
        ctx.corr_fail(case, "store model differs from the real tree", e)


# ------------------------------------------------------------------------------- trace: shared judgement
def expected_schedule(c):
    """The property's schedule, computed from its text (not from the model): -> (burn-in iterations, main iterations, iters)."""
    mt = math.inf if c["max_time"] == "inf" else float(Fraction(c["max_time"]))
    dur = c.get("dur", 1.0)
    b = 0
    for i in range(c["burnin"]):
        b = i + 1
        if i * dur > mt:  # `timer.elapsed` inside iteration i = time of the iterations before it
            break
    m = 0
    for i in range(c["num_iters"]):
        m = i + 1
        if (b + i) * dur >= mt:
            break
    return b, m, [0] + [i for i in range(m) if i % c["thin"] == 0]


def preorder_violation(t):
    names = t.nodes
    if sorted(names, key=name_key) != list(range(len(names))):
        return f"names {names} are not 0..{len(names) - 1}"
    for nm in names:
        sub = sorted([nm] + list(t.get_descendants(nm)))
        if sub != list(range(nm, nm + len(sub))):
            return f"subtree of clone {nm} has names {sub}"
    return None


def judge_trace(ctx, case, n_data, trace, conc_after=None, alpha0=None, site=SITE_TR):
    """Direct oracle on the entries of one chain's trace.  `conc_after[i]` = concentration value in force after main
    iteration i (instrumented runs)."""
    ok = True

    def fail(what, sig, det=None):
        nonlocal ok
        ok = False
        ctx.oracle_fail(case, what, site, sig, det)

    if not trace:
        fail("empty trace", "empty-trace")
        return False
    prev_t, prev_i = -math.inf, -1
    for k, e in enumerate(trace):
        miss = [x for x in ("iter", "time", "alpha", "log_p_one", "tree") if x not in e]
        if miss:
            fail(f"entry {k} lacks {miss}", "entry-incomplete")
            continue
        if e["time"] < prev_t:
            fail(f"entry {k}: time decreases", "time-decreases", f"{prev_t} -> {e['time']}")
        prev_t = e["time"]
        if k >= 2 and e["iter"] <= prev_i:
            fail(f"entry {k}: iteration numbers not increasing", "iters-not-increasing", [x["iter"] for x in trace])
        prev_i = e["iter"]
        try:
            t = Tree.from_dict(e["tree"])
            forest, outs = extract(t)
        except WFError as ex:
            fail(f"entry {k} (iter {e['iter']}) restores to an ill-formed tree", "entry-not-well-formed", str(ex))
            continue
        except Exception as ex:
            fail(f"entry {k} (iter {e['iter']}) does not restore", "entry-does-not-restore:" + type(ex).__name__, str(ex)[:300])
            continue
        dps = sorted(list(t.labels))
        if dps != list(range(n_data)) or sorted(d.idx for d in t.data) != list(range(n_data)):
            fail(f"entry {k} (iter {e['iter']}) does not hold every data point exactly once", "entry-data-incomplete", f"{dps} vs 0..{n_data - 1}")
        al = e["alpha"]
        if not (isinstance(al, (int, float, np.floating)) and math.isfinite(al) and al > 0):
            fail(f"entry {k}: alpha {al!r}", "entry-alpha-invalid")
            continue
        with warnings.catch_warnings():
            warnings.simplefilter("ignore")
            v = make_dist(al).log_p_one(t)
        if not close(v, e["log_p_one"]):
            fail(f"entry {k} (iter {e['iter']}): log_p_one recomputed under the entry's alpha differs from the recorded one",
                 "entry-log_p_one-inconsistent", {"recorded": float(e["log_p_one"]), "recomputed": float(v), "alpha": float(al)})
        # names are the relabelled ones: 0..K-1 in *a* depth-first preorder (the stored child order may be permuted
        # by the round trip): every clone's subtree occupies the contiguous range starting at the clone's own name
        bad = preorder_violation(t)
        if bad:
            fail(f"entry {k} (iter {e['iter']}): node names are not a preorder numbering (entry built before relabel_nodes?)",
                 "entry-not-relabelled", bad)
        if conc_after is not None:
            want = alpha0 if k == 0 else conc_after[e["iter"]] if e["iter"] < len(conc_after) else None
            if want is not None and float(al) != float(want):
                fail(f"entry {k} (iter {e['iter']}): recorded alpha is not the concentration value in force after that iteration's update",
                     "entry-alpha-not-post-update", {"recorded": float(al), "after_update": float(want)})
    return ok


def judge_schedule(ctx, case, cfg, trace, clocked):
    got = [e.get("iter") for e in trace]
    if clocked:
        _, _, want = expected_schedule(cfg)
        if got != want:
            ctx.oracle_fail(case, "recorded iterations differ from the schedule (post-burn-in entry, then the multiples of thin in "
                                  "range(num_iters), cut only by the time limit)", SITE_LOOP, "schedule", f"recorded {got}, expected {want}")
            return False
        return True
    # real clock: the cut point is not known, the shape is
    full = [0] + [i for i in range(cfg["num_iters"]) if i % cfg["thin"] == 0]
    okp = got[:1] == [0] and got == full[: len(got)] and len(got) >= min(2, len(full))
    if cfg["max_time"] == "inf":
        okp = got == full
    if not okp:
        ctx.oracle_fail(case, "recorded iterations are not a prefix of the thinned schedule", SITE_LOOP, "schedule", f"recorded {got}, full schedule {full}")
    return okp


def model_sched_compare(ctx, case, cfg, trace, b_iters=None, m_iters=None):
    req = {"op": "c15_sched", "burnin": cfg["burnin"], "num_iters": cfg["num_iters"], "thin": cfg["thin"], "print_freq": cfg.get("pf", 100),
           "max_time": cfg["max_time"], "dur": fr(Fraction(cfg.get("dur", 1)))}
    ans = ctx.ask(req)
    if not ans["ok"]:
        ctx.corr_fail(case, "model's schedule guards fail on a run the code completed", ans)
        return
    got = {"iters": [e["iter"] for e in trace]}
    want = {"iters": ans["iters"]}
    if b_iters is not None:
        got.update(burnin_iters=b_iters, main_iters=m_iters)
        want.update(burnin_iters=ans["burnin_iters"], main_iters=ans["main_iters"])
    if got != want:
        ctx.corr_fail(case, "schedule differs from the model's", {"code": got, "model": want})


# ------------------------------------------------------------------------------- instrumentation of the real loop
class FakeClock:
    """Each `with timer:` block lasts exactly `dur`: the counter advances by `dur` on every read."""

    def __init__(self, dur=1.0):
        self.t, self.dur = 0.0, dur

    def __call__(self):
        v = self.t
        self.t += self.dur
        return v


@contextlib.contextmanager
def instrumented(rec, clock):
    """Patch (and restore) run.py's Timer, Tree.relabel_nodes and update_concentration_value; nothing in /repo is edited."""
    o_timer, o_relabel, o_conc, o_main = prun.Timer, Tree.relabel_nodes, prun.update_concentration_value, prun._run_main_sampler

    def relabel(self):
        if rec["in_main"]:
            rec["pre_relabel"].append(describe(self))
        o_relabel(self)

    def conc(conc_sampler, tree, tree_dist):
        o_conc(conc_sampler, tree, tree_dist)
        rec["conc"].append(tree_dist.prior.alpha)

    def main(concentration_update, data, max_time, num_iters, ndp, nprg, pf, samplers, samples, thin, timer, tree, tree_dist, chain_num, rng, sub):
        rec["in_main"] = True
        rec["st0"] = describe(tree)
        rec["alpha0"] = tree_dist.prior.alpha
        rec["elapsed0"] = timer.elapsed
        try:
            return o_main(concentration_update, data, max_time, num_iters, ndp, nprg, pf, samplers, samples, thin, timer, tree, tree_dist, chain_num, rng, sub)
        finally:
            rec["in_main"] = False

    if clock is not None:
        prun.Timer = lambda: o_timer(func=clock)
    Tree.relabel_nodes = relabel
    prun.update_concentration_value = conc
    prun._run_main_sampler = main
    try:
        yield
    finally:
        prun.Timer, Tree.relabel_nodes, prun.update_concentration_value, prun._run_main_sampler = o_timer, o_relabel, o_conc, o_main


def new_rec():
    return {"in_main": False, "pre_relabel": [], "conc": [], "st0": None, "alpha0": None, "elapsed0": None}


def model_trace_compare(ctx, case, ds, cfg, trace, rec):
    """The Lean trace loop on the real run's per-iteration trees / concentration draws vs the real trace."""
    m = len(rec["pre_relabel"])
    iters = [e["iter"] for e in trace]
    stop = [False] * max(0, m - 1) + ([True] if m < cfg["num_iters"] and m > 0 else [False] if m else [])
    cu = bool(cfg["cu"])
    conc = [fr(Fraction(float(a))) for a in rec["conc"]] if cu else []
    dur = Fraction(cfg.get("dur", 1))
    e0 = Fraction(float(rec["elapsed0"]))
    ans = ctx.ask({"op": "c15_trace", "data": ds.to_json(), "n": ds.n, "thin": cfg["thin"], "num_iters": cfg["num_iters"], "cu": cu,
                   "alpha0": fr(Fraction(float(rec["alpha0"]))), "st0": rec["st0"], "trees": rec["pre_relabel"], "conc": conc, "stop": stop,
                   "clock": [fr(e0 + dur * i) for i in range(m + 1)]})
    mt = ans["trace"]
    if ans["main_iters"] != m or [e["iter"] for e in mt] != iters:
        ctx.corr_fail(case, "trace loop: iterations differ from the model", {"code": iters, "model": [e["iter"] for e in mt], "main_iters": [m, ans["main_iters"]]})
        return
    for k, (me, e) in enumerate(zip(mt, trace)):
        errs = []
        if Fraction(me["alpha"]) != Fraction(float(e["alpha"])):
            errs.append(f"alpha model {me['alpha']} vs code {e['alpha']!r}")
        if Fraction(me["pOne"]) <= 0 or not close(e["log_p_one"], logq(me["pOne"])):
            errs.append(f"log_p_one model {me['pOne']} vs code {e['log_p_one']!r}")
        if cfg.get("clocked", True) and Fraction(me["time"]) != Fraction(float(e["time"])):
            errs.append(f"time model {me['time']} vs code {e['time']!r}")
        dd = describe_dict(e["tree"])
        md = me["dict"]
        if sorted(map(tuple, md["edges"])) != sorted(map(tuple, dd["edges"])):
            errs.append(f"edges model {md['edges']} vs code {dd['edges']}")
        for key in ("node_idx", "node_idx_rev"):
            if sorted(map(tuple, md[key])) != sorted(map(tuple, dd[key])):
                errs.append(f"{key} model {md[key]} vs code {dd[key]}")
        # relabel_nodes rebuilds `_data` in preorder; preorder follows the child order, which the model takes from the
        # request: compare as a map, and the lists exactly (order inside a clone is kept by relabelling)
        if {a: b for a, b in md["node_data"]} != {a: b for a, b in dd["node_data"]}:
            errs.append(f"node_data model {md['node_data']} vs code {dd['node_data']}")
        if md["last"] != dd["last"]:
            errs.append(f"last-added model {md['last']} vs code {dd['last']}")
        if me["restored"] is None:
            errs.append("model cannot restore its own entry")
        elif not (me["restored"]["wfd"] and me["restored"]["shared"] and me["restored"]["complete"]):
            errs.append("model: restored entry violates the invariants / is not data-complete")
        else:
            errs += compare_model_store(me["restored"], Tree.from_dict(e["tree"]), Fraction(float(e["alpha"])), f"entry {k}")
        for x in errs[:3]:
            ctx.corr_fail(case, f"trace entry {k} (iter {e['iter']}) differs from the model's", x)
        if errs:
            return


# ------------------------------------------------------------------------------- loop cases (stub samplers)
class StubMove:
    """Stands in for a tree sampler: a seeded random edit that keeps every data point in the tree."""

    def __init__(self, rnd, data, outliers_on, p_prune=0.3):
        self.rnd, self.data, self.out, self.p_prune = rnd, data, outliers_on, p_prune

    def sample_tree(self, tree):
        rnd, data = self.rnd, self.data
        t = tree.copy() if rnd.random() < 0.5 else tree
        r = rnd.random()
        nodes = t.nodes
        if r < self.p_prune and len(nodes) >= 2:
            nm = rnd.choice(nodes)
            sub = t.get_subtree(nm)
            t.remove_subtree(sub)
            t.add_subtree(sub, rnd.choice([None] + t.nodes))
            return t
        movable = [(nm, d) for nm in nodes if len(t._data[nm]) >= 2 for d in t._data[nm]] + [(-1, d) for d in t.outliers]
        if not movable:
            return t
        nm, d = rnd.choice(movable)
        if nm == -1:
            t.remove_data_point_from_outliers(d)
        else:
            t.remove_data_point_from_node(d, nm)
        r = rnd.random()
        if self.out and r < 0.25:
            t.add_data_point_to_outliers(d)
        elif r < 0.5 and dense(t):  # names are 0..K-1, so the name create_root_node will use is free
            t.create_root_node(children=rnd.sample(t.roots, rnd.randint(0, len(t.roots))), data=[d])
        else:
            t.add_data_point_to_node(d, rnd.choice(t.nodes))
        return t


class StubConc:
    def __init__(self, rnd):
        self.rnd = rnd

    def sample(self, old, k, n):
        return self.rnd.choice([0.25, 0.5, 1.0, 1.5, 2.0, 3.0]) * (1 + self.rnd.randrange(4) / 8)


def check_loop(ctx, case):
    cfg = case
    ds = gen_dataset(random.Random(case["dseed"]), case["n"], S=case["S"], G=case["G"], bits=3, outlier_prob=Fraction(case["op"]))
    data = ds.real
    rnd = random.Random(case["seed"])
    forest, outs = random_canon_tree(rnd, ds.n, outliers=ds.outlier_prob > 0, max_out=ds.n - 1)
    tree = build_tree(data, forest, outs)
    tree.relabel_nodes()  # a chain starts from the single-clone tree, whose names are the relabelled ones
    stub = StubMove(rnd, data, ds.outlier_prob > 0)
    holder = prun.SamplersHolder(dp_sampler=stub, prg_sampler=stub, conc_sampler=StubConc(rnd), burnin_sampler=stub, tree_sampler=stub, subtree_sampler=stub)
    tree_dist = make_dist(case["alpha0"])
    rec = new_rec()
    mt = math.inf if case["max_time"] == "inf" else float(Fraction(case["max_time"]))
    clock = FakeClock(1.0)
    res = exc = None
    with instrumented(rec, clock), contextlib.redirect_stdout(io.StringIO()), warnings.catch_warnings():
        warnings.simplefilter("ignore")
        try:
            timer = prun.Timer()
            tree = prun._run_burnin(case["burnin"], mt, case["ndp"], case["nprg"], 100, holder, timer, tree, tree_dist, 0)
            b_iters = int(round(timer.elapsed))
            res = prun._run_main_sampler(case["cu"], data, mt, case["num_iters"], case["ndp"], case["nprg"], 100, holder, ["s"] * ds.S,
                                         case["thin"], timer, tree, tree_dist, 0, np.random.default_rng(case["seed"]), case["sub"])
        except Exception as e:
            exc = e
    if exc is not None:
        ctx.oracle_fail(case, "the run loop raised", SITE_LOOP, "loop-raised:" + type(exc).__name__, "".join(traceback.format_exception_only(type(exc), exc))[:400])
        ctx.done(case, nontrivial=False)
        return
    finish_trace_case(ctx, case, ds, cfg, res["trace"], rec, b_iters)


def finish_trace_case(ctx, case, ds, cfg, trace, rec, b_iters):
    m_iters = len(rec["pre_relabel"])
    conc_after = None
    if cfg["cu"]:
        conc_after = list(rec["conc"])
    else:
        conc_after = [rec["alpha0"]] * m_iters
    ok = judge_trace(ctx, case, ds.n, trace, conc_after=conc_after, alpha0=rec["alpha0"])
    ok = judge_schedule(ctx, case, cfg, trace, clocked=True) and ok
    eb, em, _ = expected_schedule(cfg)
    if (b_iters, m_iters) != (eb, em):
        ctx.oracle_fail(case, "number of executed burn-in / main iterations differs from the time limit's cut", SITE_LOOP, "iterations-executed",
                        f"burn-in {b_iters} (expected {eb}), main {m_iters} (expected {em})")
    if ctx.lean is not None:
        model_sched_compare(ctx, case, cfg, trace, b_iters, m_iters)
        if ok:
            model_trace_compare(ctx, case, ds, cfg, trace, rec)
    ctx.stat(f"entries={min(len(trace), 8)}")
    ctx.stat("cut_by_time_limit" if m_iters < cfg["num_iters"] else "full_run")
    if b_iters < cfg["burnin"]:
        ctx.stat("limit_hit_in_burnin")
    if cfg["num_iters"] % cfg["thin"]:
        ctx.stat("thin_not_dividing")
    ctx.done(case, nontrivial=len(trace) >= 3, sample={"config": {k: v for k, v in case.items() if k not in ("rows",)}, "iters": [e["iter"] for e in trace],
                                                        "alphas": [float(e["alpha"]) for e in trace][:6]})


# ------------------------------------------------------------------------------- chain cases (real samplers)
def check_chain(ctx, case):
    cfg = case
    ds = gen_dataset(random.Random(case["dseed"]), case["n"], S=case["S"], G=case["G"], bits=3, outlier_prob=Fraction(case["op"]))
    rec = new_rec()
    mt = math.inf if case["max_time"] == "inf" else float(Fraction(case["max_time"]))
    clock = FakeClock(1.0)
    res = exc = None
    burn_calls = [0]
    o_burn = prun._run_burnin

    def burn(*a, **k):
        timer = a[6]
        r = o_burn(*a, **k)
        burn_calls[0] = int(round(timer.elapsed))
        return r

    prun._run_burnin = burn
    try:
        with instrumented(rec, clock), contextlib.redirect_stdout(io.StringIO()), warnings.catch_warnings():
            warnings.simplefilter("ignore")
            try:
                res = prun.run_phyclone_chain(case["burnin"], case["cu"], case["alpha0"], ds.real, mt, case["num_iters"], case["N"], case["ndp"],
                                              case["nprg"], float(Fraction(case["op"])), 100, case["proposal"], case["thr"],
                                              np.random.default_rng(case["seed"]), ["s"] * ds.S, case["thin"], 0, case["sub"])
            except Exception as e:
                exc = e
    finally:
        prun._run_burnin = o_burn
    if exc is not None:
        # completion is C19's property; here it only means there is no trace to judge
        ctx.stat("chain_raised=" + type(exc).__name__)
        ctx.corr_fail(case, "run_phyclone_chain raised (C19's domain): no trace to judge", "".join(traceback.format_exception_only(type(exc), exc))[:300])
        ctx.done(case, nontrivial=False)
        return
    ctx.stat("proposal=" + case["proposal"])
    finish_trace_case(ctx, case, ds, cfg, res["trace"], rec, burn_calls[0])


# ------------------------------------------------------------------------------- CLI cases
ENTRY = "from phyclone.cli import main; main()"
TSV_HEADER = "mutation_id\tsample_id\tref_counts\talt_counts\tmajor_cn\tminor_cn\tnormal_cn\n"
ROWS = [["m0", "A", 20, 10, 1, 1, 2], ["m0", "B", 25, 5, 1, 1, 2], ["m1", "A", 30, 3, 2, 0, 2], ["m1", "B", 10, 10, 2, 0, 2],
        ["m2", "A", 5, 0, 2, 1, 2], ["m2", "B", 0, 7, 2, 1, 2], ["m3", "A", 12, 12, 1, 1, 2], ["m3", "B", 3, 30, 1, 1, 2]]


def check_cli(ctx, case):
    site = "cli.py:run"
    cfg = case["cfg"]
    with tempfile.TemporaryDirectory(prefix="c15cli_") as tmp:
        with open(os.path.join(tmp, "in.tsv"), "w") as fh:
            fh.write(TSV_HEADER + "".join("\t".join(str(x) for x in r) + "\n" for r in ROWS[: 2 * case["n_mut"]]))
        args = ["run", "--in-file", "in.tsv", "--out-file", "trace.pkl.gz", "--grid-size", "11", "--print-freq", "100",
                "--burnin", cfg["burnin"], "--num-iters", cfg["num_iters"], "--thin", cfg["thin"], "--num-particles", case["N"],
                "--num-chains", case["chains"], "--seed", case["seed"], "--outlier-prob", case["op"], "--subtree-update-prob", case["sub"],
                "--proposal", case["proposal"], "--concentration-value", case["alpha0"]]
        if cfg["max_time"] != "inf":
            args += ["--max-time", cfg["max_time"]]
        if not cfg["cu"]:
            args += ["--no-concentration-update"]
        try:
            p = subprocess.run([sys.executable, "-c", ENTRY] + [str(a) for a in args], cwd=tmp, stdout=subprocess.PIPE, stderr=subprocess.STDOUT, text=True, timeout=400)
        except subprocess.TimeoutExpired:
            ctx.corr_fail(case, "phyclone run did not finish (C19's domain)", None)
            ctx.done(case, nontrivial=False)
            return
        if p.returncode != 0:
            ctx.corr_fail(case, "phyclone run exited non-zero (C19's domain): no trace to judge", p.stdout[-800:])
            ctx.done(case, nontrivial=False)
            return
        try:
            with gzip.GzipFile(os.path.join(tmp, "trace.pkl.gz"), "rb") as fh:
                results = pickle.load(fh)
        except Exception as e:
            ctx.oracle_fail(case, "the trace file written by a completed run does not load", site, "trace-unreadable:" + type(e).__name__, str(e)[:300])
            ctx.done(case, nontrivial=False)
            return
    if sorted(results) != list(range(case["chains"])):
        ctx.oracle_fail(case, "chains missing from the trace file", site, "chains-missing", sorted(results))
    n_entries = 0
    for ch, r in sorted(results.items()):
        trace = r["trace"]
        n_entries += len(trace)
        judge_trace(ctx, case, len(r["data"]), trace, conc_after=None if cfg["cu"] else [case["alpha0"]] * cfg["num_iters"],
                    alpha0=case["alpha0"], site=SITE_TR)
        judge_schedule(ctx, case, cfg, trace, clocked=False)
        if ctx.lean is not None and cfg["max_time"] in ("inf", "0"):
            model_sched_compare(ctx, case, cfg, trace)
    ctx.stat("cli_entries", n_entries)
    ctx.stat(f"cli_chains={case['chains']}")
    ctx.done(case, nontrivial=n_entries >= 3, sample={"cfg": cfg, "chains": case["chains"], "entries": n_entries})


# ------------------------------------------------------------------------------- dispatch
def check(ctx, case):
    kind = case["kind"]
    ctx.stat("kind=" + kind)
    if kind == "dict":
        return check_dict(ctx, case)
    if kind == "loop":
        return check_loop(ctx, case)
    if kind == "chain":
        return check_chain(ctx, case)
    if kind == "cli":
        return check_cli(ctx, case)
    raise ValueError(kind)


# ------------------------------------------------------------------------------- case generation
def _dict_case(rnd, n=None, length=None, op=None, ops=None, G=None, S=None, big=False):
    n = n or (rnd.randint(6, 11) if big else rnd.randint(3, 8))
    if big and length is None:
        length = rnd.choice([20, 40, 60])
    op = op if op is not None else rnd.choice(["0", "1/4", "1/4"])
    ds = gen_dataset(rnd, n, S=S or rnd.choice([1, 1, 2]), G=G or rnd.randint(3, 5), bits=3, outlier_prob=Fraction(op))
    if ops is None:
        ops = gen_history(rnd, n, length if length is not None else rnd.choice([3, 6, 10, 15, 25]), Fraction(op) > 0, ds.real)
    return {"kind": "dict", "data": ds.to_json(), "alpha": rnd.choice(["1", "1/2", "3", "7/4"]), "ops": [jsonable_op(o) for o in ops],
            "seed": rnd.randrange(1 << 30), "n_later": rnd.randint(3, 6)}


def _corner_dicts(rnd):
    out = []
    out.append(_dict_case(rnd, n=3, ops=[]))  # the empty tree
    out.append(_dict_case(rnd, n=3, op="1/4", ops=[("out", 0)]))  # outlier-only
    out.append(_dict_case(rnd, n=4, op="1/4", ops=[("out", 2), ("out", 0), ("out", 3)]))
    out.append(_dict_case(rnd, n=4, op="1/4", ops=[("new", [0], []), ("out", 1)]))
    out.append(_dict_case(rnd, n=3, ops=[("new", [0, 1], [])]))  # single clone
    out.append(_dict_case(rnd, n=5, ops=[("new", [0], []), ("new", [1], [0]), ("new", [2], [1]), ("new", [3], [2]), ("new", [4], [3])]))  # chain
    out.append(_dict_case(rnd, n=5, ops=[("new", [0], []), ("new", [1], []), ("new", [2], []), ("new", [3], []), ("new", [4], [0, 1, 2, 3])]))  # star
    # three holes: five clones, prune three leaves, keep them parked
    out.append(_dict_case(rnd, n=6, op="1/4", ops=[("new", [0], []), ("new", [1], []), ("new", [2], []), ("new", [3], []), ("new", [4], [0, 1, 2, 3]),
                                                   ("out", 5), ("prune", 0), ("prune", 2), ("prune", 3)]))
    # holes, then everything pruned from below a root and regrafted (fresh indices beyond the old maximum)
    out.append(_dict_case(rnd, n=6, ops=[("new", [0], []), ("new", [1], [0]), ("new", [2], []), ("new", [3, 4], [1, 2]), ("prune", 1), ("graft", 0, 2), ("prune", 2),
                                         ("graft", 0, None), ("relabel",), ("new", [5], [0])]))
    # `remove_subtree(whole tree)` re-initialises the tree (`__init__`): clone-less again, fresh root vector
    out.append(_dict_case(rnd, n=3, op="1/4", ops=[("new", [0, 1], []), ("prune_whole",), ("out", 2)]))
    return out


LOOP_DEFAULT = {"kind": "loop", "n": 5, "S": 1, "G": 4, "op": "1/4", "alpha0": 1.0, "ndp": 1, "nprg": 1, "sub": 0.0, "cu": True,
                "burnin": 1, "num_iters": 4, "thin": 1, "max_time": "inf", "dur": 1}


def _loop_case(rnd, **kw):
    c = dict(LOOP_DEFAULT)
    c.update(kw)
    c["seed"], c["dseed"] = rnd.randrange(1 << 30), rnd.randrange(1 << 30)
    return c


def _max_times(burnin, num_iters):
    top = burnin + num_iters + 1
    return ["inf", "0"] + [str(k) for k in range(1, top + 1)] + [f"{2 * k + 1}/2" for k in range(top)]


def _loop_grid(rnd, tier):
    out = []
    nis = [0, 1, 2, 3, 4, 5, 6, 7, 8, 9, 12, 20]
    for ni in nis:
        for thin in (1, 2, 3, 4, 7):
            for burnin in (0, 1, 3):
                mts = _max_times(burnin, min(ni, 9))
                pick = mts if tier == "thorough" else ["inf"] + rnd.sample(mts[1:], min(len(mts) - 1, 2 if ni > 6 else 1))
                for mt in pick:
                    out.append(_loop_case(rnd, num_iters=ni, thin=thin, burnin=burnin, max_time=mt, cu=rnd.random() < 0.7, sub=rnd.choice([0.0, 0.5, 1.0]),
                                          op=rnd.choice(["0", "1/4"]), n=rnd.randint(3, 6), S=rnd.choice([1, 2]), G=rnd.randint(3, 5),
                                          ndp=rnd.choice([0, 1, 2]), nprg=rnd.choice([0, 1]), alpha0=rnd.choice([0.5, 1.0, 2.0])))
    # boundary of `>` (burn-in) vs `>=` (main loop): limits equal to an integer number of unit iterations
    for burnin in (2, 3):
        for mt in range(0, burnin + 4):
            out.append(_loop_case(rnd, burnin=burnin, num_iters=5, thin=2, max_time=str(mt)))
    return out


CHAIN_DEFAULT = {"kind": "chain", "n": 4, "S": 1, "G": 4, "op": "0", "alpha0": 1.0, "ndp": 1, "nprg": 1, "sub": 0.0, "cu": True, "burnin": 1,
                 "num_iters": 3, "thin": 1, "max_time": "inf", "dur": 1, "N": 2, "thr": 0.5, "proposal": "semi-adapted"}


def _chain_case(rnd, **kw):
    c = dict(CHAIN_DEFAULT)
    c.update(kw)
    c["seed"], c["dseed"] = rnd.randrange(1 << 30), rnd.randrange(1 << 30)
    return c


def _chain_cases(rnd, count):
    out = []
    props = ["bootstrap", "semi-adapted", "fully-adapted"]
    for i in range(count):
        burnin, ni = rnd.choice([1, 1, 2]), rnd.choice([1, 2, 3, 4, 5, 6, 6])
        out.append(_chain_case(rnd, proposal=props[i % 3], op=["0", "1/4"][(i // 3) % 2], cu=bool((i // 6) % 2 == 0), thin=rnd.choice([1, 1, 2, 3]),
                               num_iters=ni, burnin=burnin, max_time=rnd.choice(["inf", "inf"] + _max_times(burnin, ni)), sub=rnd.choice([0.0, 0.5, 1.0]),
                               n=rnd.choice([3, 4, 5]), N=rnd.choice([2, 3]), S=rnd.choice([1, 2]), G=rnd.choice([3, 4]), thr=rnd.choice([0.0, 0.5, 0.7]),
                               alpha0=rnd.choice([0.5, 1.0, 2.0]), ndp=rnd.choice([0, 1, 2]), nprg=rnd.choice([0, 1])))
    return out


def _cli_cases(rnd, tier):
    s = lambda: rnd.randrange(1 << 20)
    cs = [
        {"cfg": {"burnin": 1, "num_iters": 5, "thin": 2, "max_time": "inf", "cu": True}, "chains": 1, "n_mut": 3, "N": 2, "op": "0.25", "sub": 0.5,
         "proposal": "semi-adapted", "alpha0": 1.0},
        {"cfg": {"burnin": 2, "num_iters": 4, "thin": 3, "max_time": "0", "cu": False}, "chains": 1, "n_mut": 2, "N": 2, "op": "0", "sub": 0.0,
         "proposal": "fully-adapted", "alpha0": 0.5},
    ]
    cs += [
            {"cfg": {"burnin": 1, "num_iters": 7, "thin": 3, "max_time": "inf", "cu": True}, "chains": 2, "n_mut": 4, "N": 3, "op": "0.25", "sub": 0.5,
             "proposal": "bootstrap", "alpha0": 1.0}]
    if tier == "thorough":
        cs += [
            {"cfg": {"burnin": 1, "num_iters": 6, "thin": 4, "max_time": "inf", "cu": False}, "chains": 2, "n_mut": 3, "N": 2, "op": "0", "sub": 1.0,
             "proposal": "semi-adapted", "alpha0": 2.0},
            {"cfg": {"burnin": 3, "num_iters": 3, "thin": 1, "max_time": "0", "cu": True}, "chains": 1, "n_mut": 4, "N": 2, "op": "0.5", "sub": 0.0,
             "proposal": "fully-adapted", "alpha0": 1.0},
            {"cfg": {"burnin": 1, "num_iters": 4, "thin": 5, "max_time": "inf", "cu": True}, "chains": 1, "n_mut": 1, "N": 2, "op": "0.5", "sub": 1.0,
             "proposal": "bootstrap", "alpha0": 1.0},
        ]
    return [dict(c, kind="cli", seed=s()) for c in cs]


def cases(tier, rnd):
    out = []
    out += _cli_cases(rnd, tier)  # slow ones first so they land on different workers
    chains = _chain_cases(rnd, 72 if tier == "quick" else 1200)
    out += chains
    out += _corner_dicts(rnd)
    out += [_dict_case(rnd, big=(tier == "thorough" and i % 3 == 0)) for i in range(500 if tier == "quick" else 12000)]
    out += _loop_grid(rnd, tier)
    return out


# ------------------------------------------------------------------------------- search / shrink
def search(ctx, failed_cases, rnd, deadline):
    """Oracle-only (ctx.lean is None): the disagreeing inputs first, then fresh ones."""
    todo = [c for c in failed_cases if isinstance(c, dict) and c.get("kind") in ("dict", "loop", "chain")]
    while time.time() < deadline and not ctx.oracle_failures:
        if todo:
            c = todo.pop(0)
        else:
            c = rnd.choice([_dict_case, lambda r: rnd.choice(_loop_grid(r, "quick"))])(rnd)
        try:
            check(ctx, c)
        except Exception:
            ctx.stat("search_errors")


def shrink(failure):
    """dict cases: drop history ops from the end / anywhere while the same signature keeps failing."""
    from ..runner import Ctx

    case = failure["case"]
    if case.get("kind") != "dict":
        return failure
    sig = failure["signature"]
    t_end = time.time() + 20

    def fails(c):
        cx = Ctx(ID, "quick", 0, None)
        try:
            check(cx, c)
        except Exception:
            return None
        if cx.corr_failures:
            return None
        return next((f for f in cx.oracle_failures if f["signature"] == sig), None)

    best, bestf = case, failure
    i = len(best["ops"]) - 1
    while i >= 0 and time.time() < t_end:
        c = dict(best, ops=best["ops"][:i] + best["ops"][i + 1:])
        f = fails(c)
        if f:
            best, bestf = c, f
        i -= 1
    return bestf
