"""C09 — data orders are drawn uniformly from those compatible with the tree."""
import itertools
import math
from fractions import Fraction

import numpy as np

from ..common import gen_dataset, random_canon_tree, build_tree, forest_size
from ..enumrng import dist_of
from phyclone.smc.utils import RootPermutationDistribution

ID = "C09"
LEVEL = "proof"
THEOREMS = ["c09_orders_exact", "c09_nodup", "c09_count", "c09_uniform", "c09_pdf"]
BUDGET = {"quick": 90, "thorough": 600}
RULE = ("random trees on 1..6 (quick) / 1..8 (thorough) data points, clone sizes 1-3, 0-3 outliers; the exact distribution of "
        "RootPermutationDistribution.sample under the enumerating generator and the value of log_pdf are compared with the Lean "
        "model's enumeration / Dist, and, independently, with a brute-force filter over all permutations. Non-trivial: at least "
        "2 compatible orders and at least one ancestor constraint or outlier; distinct by tree.")
TRUSTED = ["the sentinel shuffle inside interleave_lists is modelled as the uniform distribution on distinct interleavings; the "
           "Fisher-Yates enumeration of the real code on every run checks that modelling step"]
ASSUMPTIONS = ["numpy's Generator.shuffle is a uniform shuffle"]


def cases(tier, rnd):
    out = []
    for i in range(120 if tier == "quick" else 500):
        n = rnd.randint(1, (7 if i % 10 == 0 else 6) if tier == "quick" else (8 if i % 5 == 0 else 7))
        forest, outs = random_canon_tree(rnd, n, outliers=(i % 2 == 0), max_out=3)
        out.append({"n": n, "forest": forest, "outs": outs})
    # fixed corner cases
    out += [
        {"n": 2, "forest": [], "outs": [0, 1]},
        {"n": 3, "forest": [], "outs": [0, 1, 2]},
        {"n": 1, "forest": [[[0], []]], "outs": []},
        {"n": 4, "forest": [[[0], []], [[1], []], [[2], []]], "outs": [3]},
        {"n": 4, "forest": [[[0, 1], [[[2], []], [[3], []]]]], "outs": []},
        # deep chains next to siblings: subtree sizes must count all descendants, not only children
        {"n": 4, "forest": [[[0], [[[1], [[[2], []]]]]], [[3], []]], "outs": []},
        {"n": 5, "forest": [[[0], [[[1], [[[2], [[[3], []]]]]], [[4], []]]]], "outs": []},
        {"n": 6, "forest": [[[0], [[[1], [[[2], []]]]]], [[3], [[[4], [[[5], []]]]]]], "outs": []},
        {"n": 6, "forest": [[[0], [[[1], [[[2], [[[3], []]]]]]]], [[4], []]], "outs": [5]},
    ]
    return out


def constraints(forest):
    """pairs (a, b): a must come before b — a in a proper descendant clone of b's clone."""
    pairs = []

    def go(node):
        below = []
        for k in node[1]:
            below += go(k)
        for a in below:
            for b in node[0]:
                pairs.append((a, b))
        return below + list(node[0])

    for x in forest:
        go(x)
    return pairs


def brute_orders(n, forest):
    cons = constraints(forest)
    res = set()
    for p in itertools.permutations(range(n)):
        pos = {v: i for i, v in enumerate(p)}
        if all(pos[a] < pos[b] for a, b in cons):
            res.add(p)
    return res


def check(ctx, case):
    n, forest, outs = case["n"], case["forest"], case["outs"]
    ds = gen_dataset(__import__("random").Random(1), n, 1, 3, 2)
    tree = build_tree(ds.real, forest, outs)
    ctx.stat(f"n_{n}")
    ctx.stat(f"outliers_{len(outs)}")
    ctx.stat(f"clones_{forest_size(forest)}")

    def draw(rng):
        return tuple(d.idx for d in RootPermutationDistribution.sample(tree, rng))

    dist, leaves = dist_of(draw)
    ctx.stat("enumerated_leaves", leaves)
    log_pdf = float(RootPermutationDistribution.log_pdf(tree))
    # direct oracle: brute force over all permutations
    bf = brute_orders(n, forest)
    site = "smc.utils.RootPermutationDistribution"
    if set(dist) != bf:
        extra, missing = set(dist) - bf, bf - set(dist)
        ctx.oracle_fail(case, f"support of sampled orders differs from the compatible orders (extra {len(extra)}, missing {len(missing)})",
                        site + ".sample", "support", {"extra": sorted(extra)[:3], "missing": sorted(missing)[:3]})
    elif any(abs(p - 1.0 / len(bf)) > 1e-12 for p in dist.values()):
        ctx.oracle_fail(case, "sampled orders are not equiprobable", site + ".sample", "non-uniform",
                        {"min": min(dist.values()), "max": max(dist.values()), "uniform": 1.0 / len(bf)})
    if abs(log_pdf + math.log(len(bf))) > 1e-9:
        ctx.oracle_fail(case, f"log_pdf {log_pdf} is not -log({len(bf)})", site + ".log_count", "count")
    # correspondence with the model
    ans = ctx.ask({"op": "perm", "forest": forest, "outs": outs})
    m_orders = {tuple(o) for o in ans["orders"]}
    if len(m_orders) != len(ans["orders"]):
        ctx.corr_fail(case, "model enumeration contains duplicates")
    if m_orders != set(dist):
        ctx.corr_fail(case, "model orders differ from the support of the real sampler", {"model": len(m_orders), "code": len(dist)})
    mdist = {}
    for o, q in ans["dist"]:
        mdist[tuple(o)] = mdist.get(tuple(o), Fraction(0)) + Fraction(q)
    for o, p in dist.items():
        if abs(float(mdist.get(o, 0)) - p) > 1e-12:
            ctx.corr_fail(case, f"probability of order {o}", {"code": p, "model": str(mdist.get(o))})
            break
    cnt = Fraction(ans["count"])
    if abs(log_pdf + math.log(cnt)) > 1e-9:
        ctx.corr_fail(case, "log_pdf differs from the model's count", {"code": log_pdf, "model": str(cnt)})
    ctx.done(case, nontrivial=(len(bf) >= 2 and (len(constraints(forest)) > 0 or len(outs) > 0)),
             sample={"forest": forest, "outs": outs, "orders": len(bf), "leaves": leaves})


def search(ctx, failed, rnd, deadline):
    import time

    class _Null:
        def ask(self, req):
            raise RuntimeError("no model in search")

    for c in failed + cases("quick", rnd):
        if time.time() > deadline:
            break
        sub = type(ctx)(ctx.pid, ctx.tier, ctx.seed, None)
        try:
            # oracle part only: reuse check but ignore the model part
            n, forest, outs = c["n"], c["forest"], c["outs"]
            ds = gen_dataset(__import__("random").Random(1), n, 1, 3, 2)
            tree = build_tree(ds.real, forest, outs)
            dist, _ = dist_of(lambda rng: tuple(d.idx for d in RootPermutationDistribution.sample(tree, rng)))
            bf = brute_orders(n, forest)
            ctx.evaluations += 1
            if set(dist) != bf or any(abs(p - 1.0 / len(bf)) > 1e-12 for p in dist.values()):
                ctx.oracle_fail(c, "sampled orders are not uniform on the compatible orders", "smc.utils.RootPermutationDistribution.sample", "distribution")
            lp = float(RootPermutationDistribution.log_pdf(tree))
            if abs(lp + math.log(len(bf))) > 1e-9:
                ctx.oracle_fail(c, f"log_pdf {lp} is not -log({len(bf)})", "smc.utils.RootPermutationDistribution.log_count", "count")
        except Exception:
            ctx.stat("search_errors")
