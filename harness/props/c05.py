"""C05 — emission likelihood grids implement the PyClone mutation model.

Correspondence: input files written to a temporary directory -> `phyclone.data.pyclone.load_data`
-> every grid entry / outlier term compared with the Lean model's exact rational (`em_load`).
Direct oracle (no Lean model): `fractions.Fraction` evaluation of the formula in the property text,
"sum over all alternate counts at fixed depth is one" on the real code's grids and pmf primitives,
and a float evaluation of the same formula at extreme depth."""
import contextlib
import io
import math
import os
import tempfile
import time
from fractions import Fraction

import numpy as np

import sys

if hasattr(sys, "set_int_max_str_digits"):
    sys.set_int_max_str_digits(0)  # the model's exact rationals can have more than 4300 digits


def parse_q(s):
    """'num/den' -> Fraction without going through Fraction's regular expression (large numbers)"""
    a, _, b = s.partition("/")
    return Fraction(int(a), int(b) if b else 1)


ID = "C05"
LEVEL = "proof"
THEOREMS = [
    "genotypes_spec",
    "prior_sum_one",
    "vaf_in_unit",
    "binom_pmf_sum_one",
    "betabinom_sum_one",
    "mixture_sum_one",
    "lik_pos",
    "grid_point",
    "cluster_is_product",
    "outlier_terms",
]
BUDGET = {"quick": 58, "thorough": 420}
SEARCH_BUDGET = 60
MAX_JOBS = 7  # every worker pays ~5 s of numba compilation; fewer workers cost less CPU in total
RULE = ("input files with 1..5 mutations x 1..3 samples (major 1..5 >= minor, normal 1..2, depth 0..60 quick / ..400 "
        "thorough, a few at 2000), tumour content and error rate as dyadics or the decimals 1e-3/1e-2/0.2 (the floats "
        "pandas parsed are what the model receives, exactly), both densities, precision in {1,2,40,400,1000,1/2,81/2}, "
        "grid 1..21 and 101, optional clustering (with / without outlier_prob column, zero entries, assign flag; kind 'intcol': the column holds the integer literal 0 only; kind 'clsize': the cluster file also lists a mutation with major copy number 0 and / or one absent from the data) and "
        "optional missing tumour_content / error_rate columns; every grid entry and outlier term of load_data is "
        "compared with the Lean model's exact rational and, independently, with a Fraction evaluation of the formula "
        "in the property; 'sumone' files hold all alternate counts 0..n at fixed depth and the grids must sum to one; "
        "'genotypes' compares get_major_cn_prior; 'prims' the pmf primitives; 'extreme' depth 1e3..2e5 against a "
        "float evaluation of the formula; malformed inputs (major < minor, normal 0, mutation without cluster, "
        "precision 0) must be refused by code and model alike.  Non-trivial: some mutation has >= 2 genotypes and "
        "depth > 0; distinct by input digest.")
TRUSTED = ["pandas.read_table parses the numbers of the input file (the parsed floats are read back and handed to the "
           "model exactly); numba, math.lgamma, np.log/log1p/exp are outside the model: grid values are compared "
           "numerically (1e-9 binomial, 1e-8 beta-binomial, relative to max(1,|value|))",
           "the chromosome-based outlier-probability assignment (_assign_out_prob) is not part of this property and "
           "is not exercised"]
ASSUMPTIONS = ["'cluster size' in the property is read as the number of mutations the cluster file lists for the cluster (rows after "
               "drop_duplicates), which is what the code uses, also when some of them contribute no grid (removed by the "
               "loader's filters or absent from the data file); the grid is the sum over the members present in the data",
               "normal copy number >= 1 (with 0 the code raises ZeroDivisionError at CCF 0; the model refuses too)",
               "precision > 0", "cluster file consistent with the data file (each mutation in exactly one cluster, "
               "one outlier_prob per cluster)"]

TOL_BIN = 1e-9
TOL_BB = 1e-8


def fr(q):
    q = Fraction(q)
    return f"{q.numerator}/{q.denominator}"


def logq(q):
    q = Fraction(q)
    if q <= 0:
        return -math.inf
    return math.log(q.numerator) - math.log(q.denominator)


def close(code, exact, tol):
    if math.isinf(exact) or math.isinf(code):
        return code == exact
    return abs(code - exact) <= tol * max(1.0, abs(exact))


# ------------------------------------------------------------------ specification (property text)
def spec_genotypes(major, minor, normal, eps):
    """PyClone 'major copy number' prior: variant on x = 1..major of the total copies with the
    reference population at the normal copy number (mutation before the copy-number change) plus,
    iff normal != total, one variant copy with the reference population at the tumour copy number."""
    T = major + minor
    gs = [((normal, normal, T), (eps, eps, min(1 - eps, Fraction(x, T)))) for x in range(1, major + 1)]
    if normal != T:
        gs.append(((normal, T, T), (eps, eps, min(1 - eps, Fraction(1, T)))))
    return gs


def spec_vaf(cn, mu, t, f):
    w = (1 - t, t * (1 - f), t * f)
    num = sum(w[i] * cn[i] * mu[i] for i in range(3))
    den = sum(w[i] * cn[i] for i in range(3))
    return num / den


def _rising_frac(a, n):
    """a (a+1) ... (a+n-1) for a Fraction a, through integers."""
    p, q = a.numerator, a.denominator
    num = 1
    for i in range(n):
        num *= p + i * q
    return Fraction(num, q ** n)


def spec_pmf(density, s, n, x, v):
    c = math.comb(n, x)
    if density == "binomial":
        return c * v ** x * (1 - v) ** (n - x)
    a = v * s
    b = s - a
    return c * _rising_frac(a, x) * _rising_frac(b, n - x) / _rising_frac(a + b, n)


def spec_lik(density, s, row, f):
    gs = spec_genotypes(row["major"], row["minor"], row["normal"], row["eps"])
    n, x = row["ref"] + row["alt"], row["alt"]
    return sum(spec_pmf(density, s, n, x, spec_vaf(cn, mu, row["t"], f)) for cn, mu in gs) / len(gs)


def spec_ccf(G, k):
    return Fraction(k, G - 1) if G > 1 else Fraction(0)


def spec_cluster_prob(col, assign, low, p):
    """documented choice of the per-cluster prior loss probability (no chromosome data)"""
    if assign:
        return col if col is not None else low
    if p == 0:
        return Fraction(0)
    v = col if col is not None else p
    return p if v == 0 else v


# ------------------------------------------------------------------ generators
DYADIC_T = ["1.0", "0.5", "0.75", "0.25", "0.875", "0.125", "0.3125", "0.9375", "0.0625"]
DEC_T = ["0.3", "0.62", "0.9", "1.0"]
DYADIC_E = ["0.0009765625", "0.0078125", "0.125", "0.1875", "0.25", "0.4375", "0.03125"]
DEC_E = ["0.001", "0.01", "0.2"]
PRECISIONS = [1, 2, 40, 400, 1000, 0.5, 40.5]
PROBS = ["0.0001", "0.25", "0.5", "0.0009765625", "0.4", "0.75"]


def gen_cn(rnd):
    major = rnd.choice([1, 1, 2, 2, 3, 4, 5])
    minor = rnd.choice([0, 0, 1, rnd.randint(0, major), major])
    minor = min(minor, major)
    normal = rnd.choice([2, 2, 1, 2, major + minor if major + minor <= 3 else 2])
    return major, minor, max(1, normal)


def gen_row(rnd, sample, depth_max, dyadic):
    major, minor, normal = gen_cn(rnd)
    r = rnd.random()
    if r < 0.08:
        ref, alt = 0, 0
    elif r < 0.16:
        ref, alt = rnd.randint(0, depth_max), 0
    elif r < 0.22:
        ref, alt = 0, rnd.randint(0, depth_max)
    else:
        n = rnd.randint(1, depth_max)
        alt = rnd.randint(0, n)
        ref = n - alt
    return {"sample": sample, "ref": ref, "alt": alt, "major": major, "minor": minor, "normal": normal,
            "t": rnd.choice(DYADIC_T if dyadic else DEC_T), "eps": rnd.choice(DYADIC_E if dyadic else DEC_E)}


def gen_load(rnd, tier, i):
    big = tier == "thorough"
    S = rnd.choice([1, 1, 2, 3])
    M = rnd.randint(1, 5)
    G = rnd.choice([1, 2, 3, 5, 11, 21]) if not big else rnd.choice([1, 2, 3, 5, 11, 21, 51])
    depth = rnd.choice([5, 20, 60]) if not big else rnd.choice([5, 20, 60, 150, 400])
    dyadic = rnd.random() < 0.7
    if i % 12 == 0:
        G, M, S, depth = (101 if i % 24 == 0 or not big else 201), 1, 1, min(depth, 60)
    if big and i % 40 == 1:
        G, M, S, depth, dyadic = rnd.choice([2, 3]), 1, 1, 2000, True
    # exact rational arithmetic costs ~ entries x depth (x depth again for non-dyadic parameters): cap it
    cap = 40000 if dyadic else 5000
    if not dyadic:
        depth = min(depth, 150)
    while G * M * S * depth > cap and G > 2:
        G = max(g for g in (1, 2, 3, 5, 11, 21, 51, 101, 201) if g < G)
    density = rnd.choice(["binomial", "beta-binomial"])
    samples = rnd.sample(["A", "B", "S10", "S2", "zz"], S)
    ids = rnd.sample([f"m{j}" for j in range(20)] + ["chr1:100", "a_mut", "Z"], M)
    muts = [{"id": m, "rows": [gen_row(rnd, s, depth, dyadic) for s in samples]} for m in ids]
    cols = {"tumour_content": rnd.random() < 0.85, "error_rate": rnd.random() < 0.85}
    case = {"kind": "load", "density": density, "precision": rnd.choice(PRECISIONS), "G": G,
            "outlier_prob": rnd.choice(PROBS + ["0.0001", "0"]), "cols": cols, "muts": muts, "clusters": None,
            "shuffle": rnd.randrange(1 << 30)}
    if rnd.random() < 0.45:
        k = rnd.randint(1, M)
        cids = rnd.sample([0, 1, 2, 3, 5, 10, 11], k)
        assign = [cids[j] if j < k else rnd.choice(cids) for j in range(M)]
        rnd.shuffle(assign)
        has_col = rnd.random() < 0.5
        groups = []
        for c in cids:
            groups.append({"id": c, "members": [ids[j] for j in range(M) if assign[j] == c],
                           "p": rnd.choice(PROBS + ["0.0", "0.0"]) if has_col else None})
        case["clusters"] = {"assign": rnd.random() < 0.3, "low_loss": "0.0001", "high_loss": "0.4",
                            "groups": groups, "per_sample_rows": rnd.random() < 0.4}
    return case


def gen_intcol(rnd, i):
    """cluster file whose outlier_prob column holds only the integer literal 0 ("use the default")"""
    while True:
        c = gen_load(rnd, "quick", 1)
        if c["clusters"]:
            break
    c["kind"] = "intcol"
    for g in c["clusters"]["groups"]:
        g["p"] = "0"
    c["clusters"]["assign"] = False
    c["outlier_prob"] = rnd.choice(PROBS)
    if i == 0:  # the minimal instance
        c.update({"density": "binomial", "G": 3, "outlier_prob": "0.4", "cols": {"tumour_content": True, "error_rate": True},
                  "muts": [{"id": "m1", "rows": [{"sample": "A", "ref": 3, "alt": 2, "major": 1, "minor": 1, "normal": 2,
                                                  "t": "0.75", "eps": "0.001"}]}]})
        c["clusters"] = {"assign": False, "low_loss": "0.0001", "high_loss": "0.4", "per_sample_rows": False,
                         "groups": [{"id": 0, "members": ["m1"], "p": "0"}]}
    return c


def gen_clsize(rnd, i):
    """cluster file that also lists mutations contributing no grid: one removed by the loader (major copy
    number 0 in the data file) and / or one absent from the data file"""
    while True:
        c = gen_load(rnd, "quick", 1)
        if c["clusters"] and c["outlier_prob"] != "0":
            break
    c["kind"] = "clsize"
    samples = [r["sample"] for r in c["muts"][0]["rows"]]
    groups = c["clusters"]["groups"]
    if i % 3 != 1:
        c["muts"].append({"id": "cnzero", "rows": [{"sample": s, "ref": 4, "alt": 1, "major": 0, "minor": 0, "normal": 2,
                                                    "t": "0.5", "eps": "0.125"} for s in samples]})
        rnd.choice(groups)["members"].append("cnzero")
    if i % 3 != 2:
        rnd.choice(groups)["members"].append("not_in_data")
    if i == 0:  # the minimal instance
        c.update({"density": "binomial", "G": 3, "outlier_prob": "0.25", "cols": {"tumour_content": False, "error_rate": False},
                  "muts": [{"id": "m1", "rows": [{"sample": "A", "ref": 10, "alt": 5, "major": 2, "minor": 1, "normal": 2, "t": "1.0", "eps": "0.001"}]},
                           {"id": "m2", "rows": [{"sample": "A", "ref": 10, "alt": 5, "major": 0, "minor": 0, "normal": 2, "t": "1.0", "eps": "0.001"}]}]})
        c["clusters"] = {"assign": False, "low_loss": "0.0001", "high_loss": "0.4", "per_sample_rows": False,
                         "groups": [{"id": 0, "members": ["m1", "m2", "m3"], "p": None}]}
    return c


def gen_sumone(rnd, tier, i):
    major, minor, normal = gen_cn(rnd)
    dyadic = rnd.random() < 0.7
    n = rnd.randint(0, 40)
    if tier == "thorough":
        n = rnd.choice([rnd.randint(0, 60), rnd.randint(100, 300), 2000 if i % 10 == 0 else 500])
    return {"kind": "sumone", "density": rnd.choice(["binomial", "beta-binomial"]), "precision": rnd.choice(PRECISIONS),
            "G": rnd.choice([1, 2, 3, 5]), "n": n, "major": major, "minor": minor, "normal": normal,
            "t": rnd.choice(DYADIC_T if dyadic else DEC_T), "eps": rnd.choice(DYADIC_E if dyadic else DEC_E)}


def gen_genotypes(rnd, tier="quick"):
    major = rnd.randint(1, 8 if tier == "quick" else 16)
    minor = rnd.randint(0, major)
    normal = rnd.choice([1, 2, 2, major + minor, rnd.randint(1, 4)])
    return {"kind": "genotypes", "major": major, "minor": minor, "normal": normal, "eps": rnd.choice(DYADIC_E + DEC_E)}


def gen_prims(rnd, tier):
    return {"kind": "prims", "n": rnd.randint(0, 80 if tier == "quick" else 400),
            "p": rnd.choice(["0.5", "0.125", "0.001", "0.9990234375", "0.3", "0", "1"]),
            "a": rnd.choice(["0.5", "3", "0.0009765625", "137.25", "399.609375", "0.2"]),
            "b": rnd.choice(["0.5", "1", "39.5", "0.390625", "999.8", "7"])}


def gen_extreme(rnd):
    major, minor, normal = gen_cn(rnd)
    n = rnd.choice([1000, 5000, 20000, 100000, 200000])
    frac = rnd.choice([0.0, 0.001, 0.1, 0.33, 0.5, 0.9, 1.0])
    alt = int(n * frac)
    return {"kind": "extreme", "density": rnd.choice(["binomial", "beta-binomial"]), "precision": rnd.choice(PRECISIONS),
            "G": rnd.choice([2, 3, 5]), "ref": n - alt, "alt": alt, "major": major, "minor": minor, "normal": normal,
            "t": rnd.choice(DYADIC_T + DEC_T), "eps": rnd.choice(DYADIC_E + DEC_E)}


def gen_malformed(rnd, which):
    base = gen_load(rnd, "quick", 1)
    base["kind"] = "malformed"
    base["which"] = which
    base["cols"] = {"tumour_content": True, "error_rate": True}
    row = base["muts"][0]["rows"][0]
    if which == "major_lt_minor":
        row["major"], row["minor"] = 1, rnd.randint(2, 4)
    elif which == "normal_zero":
        row["normal"] = 0
    elif which == "precision_zero":
        base["density"], base["precision"] = "beta-binomial", 0
        row["ref"], row["alt"] = 7, 3
    elif which == "no_cluster":
        if len(base["muts"]) < 2:
            base["muts"].append({"id": "extra", "rows": [dict(r) for r in base["muts"][0]["rows"]]})
        ids = [m["id"] for m in base["muts"]]
        base["clusters"] = {"assign": False, "low_loss": "0.0001", "high_loss": "0.4", "per_sample_rows": False,
                            "groups": [{"id": 0, "members": ids[1:], "p": None}]}
    return base


def cases(tier, rnd):
    out = []
    q = tier == "quick"
    for i in range(180 if q else 8000):
        out.append(gen_load(rnd, tier, i))
    for i in range(30 if q else 200):
        out.append(gen_sumone(rnd, tier, i))
    for _ in range(40 if q else 400):
        out.append(gen_genotypes(rnd, tier))
    for _ in range(30 if q else 200):
        out.append(gen_prims(rnd, tier))
    for _ in range(20 if q else 150):
        out.append(gen_extreme(rnd))
    for i in range(4 if q else 12):
        out.append(gen_intcol(rnd, i))
    for i in range(4 if q else 12):
        out.append(gen_clsize(rnd, i))
    for w in ["major_lt_minor", "normal_zero", "precision_zero", "no_cluster"] * (2 if q else 4):
        out.append(gen_malformed(rnd, w))
    return out


# ------------------------------------------------------------------ running the real code
def write_inputs(d, case):
    """Writes the data file (and cluster file); returns (data_file, cluster_file or None)."""
    import random as _r

    cols = case["cols"]
    header = ["mutation_id", "sample_id", "ref_counts", "alt_counts", "major_cn", "minor_cn", "normal_cn"]
    if cols["tumour_content"]:
        header.append("tumour_content")
    if cols["error_rate"]:
        header.append("error_rate")
    lines = []
    for m in case["muts"]:
        for r in m["rows"]:
            ln = [m["id"], r["sample"], r["ref"], r["alt"], r["major"], r["minor"], r["normal"]]
            if cols["tumour_content"]:
                ln.append(r["t"])
            if cols["error_rate"]:
                ln.append(r["eps"])
            lines.append("\t".join(str(x) for x in ln))
    _r.Random(case.get("shuffle", 0)).shuffle(lines)
    fn = os.path.join(d, "data.tsv")
    with open(fn, "w") as f:
        f.write("\t".join(header) + "\n" + "\n".join(lines) + "\n")
    cf = None
    cl = case.get("clusters")
    if cl:
        cf = os.path.join(d, "clusters.tsv")
        has_col = any(g["p"] is not None for g in cl["groups"])
        samples = [r["sample"] for r in case["muts"][0]["rows"]]
        with open(cf, "w") as f:
            hdr = ["mutation_id"] + (["sample_id"] if cl["per_sample_rows"] else []) + ["cluster_id"] + (["outlier_prob"] if has_col else [])
            f.write("\t".join(hdr) + "\n")
            for g in cl["groups"]:
                for mid in g["members"]:
                    for s in (samples if cl["per_sample_rows"] else [None]):
                        ln = [mid] + ([s] if s is not None else []) + [g["id"]] + ([g["p"]] if has_col else [])
                        f.write("\t".join(str(x) for x in ln) + "\n")
    return fn, cf


def parsed_rows(fn, case):
    """The numbers the code sees: tumour content / error rate as parsed by pandas (exact Fractions)."""
    import pandas as pd

    df = pd.read_table(fn)
    df["sample_id"] = df["sample_id"].astype(str)
    key = {(str(a), str(b)): i for i, (a, b) in enumerate(zip(df["mutation_id"], df["sample_id"]))}
    muts = []
    for m in sorted(case["muts"], key=lambda m: m["id"]):
        rows = []
        for r in sorted(m["rows"], key=lambda r: r["sample"]):
            i = key[(m["id"], r["sample"])]
            t = Fraction(float(df["tumour_content"].iloc[i])) if "tumour_content" in df.columns else Fraction(1)
            e = Fraction(float(df["error_rate"].iloc[i])) if "error_rate" in df.columns else Fraction(1e-3)
            rows.append({"ref": r["ref"], "alt": r["alt"], "major": r["major"], "minor": r["minor"],
                         "normal": r["normal"], "t": t, "eps": e})
        if all(r["major"] > 0 for r in rows):  # the loader drops mutations with major copy number 0
            muts.append({"id": m["id"], "rows": rows})
    return muts


def parsed_cluster_probs(cf, case):
    import pandas as pd

    df = pd.read_csv(cf, sep="\t")
    out = {}
    for g in case["clusters"]["groups"]:
        if "outlier_prob" in df.columns:
            v = df.loc[df["cluster_id"] == g["id"], "outlier_prob"]
            out[g["id"]] = Fraction(float(v.iloc[0]))
        else:
            out[g["id"]] = None
    return out


def run_code(fn, cf, case):
    from phyclone.data.pyclone import load_data

    cl = case.get("clusters") or {}
    buf = io.StringIO()
    with contextlib.redirect_stdout(buf), np.errstate(all="ignore"):
        data, samples = load_data(fn, np.random.default_rng(0), float(cl.get("low_loss", "0.0001")),
                                  float(cl.get("high_loss", "0.4")), bool(cl.get("assign", False)), cluster_file=cf,
                                  density=case["density"], grid_size=case["G"],
                                  outlier_prob=float(case["outlier_prob"]), precision=case["precision"])
    return data, samples


def expected_points(case, muts, cprobs):
    """Specification of the data points: [(name, [member mutation rows], p, size)] in output order."""
    p = Fraction(float(case["outlier_prob"]))
    cl = case.get("clusters")
    if not cl:
        return [(m["id"], [m], p, 1) for m in muts]
    by_id = {m["id"]: m for m in muts}
    pts = []
    for g in sorted(cl["groups"], key=lambda g: g["id"]):
        mem = [by_id[x] for x in sorted(g["members"]) if x in by_id]
        if not mem:
            continue
        cp = spec_cluster_prob(cprobs[g["id"]], cl["assign"], Fraction(float(cl["low_loss"])), p)
        # cluster size = number of mutations the cluster file lists for the cluster (also those the loader drops)
        pts.append((str(g["id"]), mem, cp, len(set(g["members"]))))
    return pts


def model_request(case, muts, cprobs):
    req = {"op": "em_load", "density": case["density"], "precision": fr(Fraction(case["precision"])), "G": case["G"],
           "outlier_prob": fr(Fraction(float(case["outlier_prob"]))),
           "muts": [[{"ref": r["ref"], "alt": r["alt"], "major": r["major"], "minor": r["minor"], "normal": r["normal"],
                      "eps": fr(r["eps"]), "t": fr(r["t"])} for r in m["rows"]] for m in muts]}
    cl = case.get("clusters")
    if cl:
        pos = {m["id"]: i for i, m in enumerate(muts)}
        req["clusters"] = {"assign": bool(cl["assign"]), "low_loss": fr(Fraction(float(cl["low_loss"]))),
                           "groups": [{"members": [pos[x] for x in sorted(g["members"]) if x in pos],
                                       "listed": len(set(g["members"])),
                                       "col": (fr(cprobs[g["id"]]) if cprobs[g["id"]] is not None else None)}
                                      for g in sorted(cl["groups"], key=lambda g: g["id"])
                                      if case["kind"] == "malformed" or any(x in pos for x in g["members"])]}
    return req


def check_load(ctx, case, use_model=True):
    tol = TOL_BIN if case["density"] == "binomial" else TOL_BB
    G = case["G"]
    with tempfile.TemporaryDirectory(prefix="c05_") as d:
        fn, cf = write_inputs(d, case)
        muts = parsed_rows(fn, case)
        cprobs = parsed_cluster_probs(cf, case) if cf else {}
        code_err = None
        try:
            data, samples = run_code(fn, cf, case)
        except Exception as e:  # the code refused the input
            code_err = type(e).__name__
    ctx.stat("density_" + case["density"])
    ctx.stat(f"G_{G}")
    ctx.stat("clustered" if case.get("clusters") else "unclustered")
    model, model_err = None, None
    if use_model:
        from ..leanio import ModelError

        try:
            model = ctx.ask(model_request(case, muts, cprobs))["points"]
        except ModelError as e:
            model_err = str(e)
    if case["kind"] == "malformed":
        ctx.stat("malformed_" + case["which"])
        bad_code = code_err is not None or not all(np.all(np.isfinite(dp.value)) for dp in data)
        if not bad_code:
            ctx.corr_fail(case, f"malformed input ({case['which']}) accepted by the code with finite grids", None)
        if use_model and model_err is None:
            ctx.corr_fail(case, f"malformed input ({case['which']}) accepted by the model", None)
        ctx.done(case, nontrivial=False, sample={"malformed": case["which"], "code": code_err, "model": model_err})
        return
    if code_err is not None:
        cl = case.get("clusters")
        if code_err == "TypeError" and cl and all(g["p"] is not None and "." not in g["p"] for g in cl["groups"]):
            ctx.oracle_fail(case, "load_data raised TypeError: integer-typed outlier_prob column in the cluster file cannot take "
                            "the default outlier probability", "data.pyclone._setup_cluster_df", "int-column-TypeError", code_err)
        else:
            ctx.oracle_fail(case, f"load_data raised {code_err} on a valid input", "data.pyclone.load_data", "exception", code_err)
        ctx.done(case, nontrivial=False)
        return
    if use_model and model_err is not None:
        ctx.corr_fail(case, "model rejected an input the code accepts", model_err)
    pts = expected_points(case, muts, cprobs)
    S = len(case["muts"][0]["rows"])
    if samples != sorted(r["sample"] for r in case["muts"][0]["rows"]):
        ctx.corr_fail(case, "sample list", samples)
    if [str(dp.name) for dp in data] != [p[0] for p in pts] or [dp.idx for dp in data] != list(range(len(pts))):
        ctx.oracle_fail(case, "data points are not one per mutation / cluster in sorted order", "data.pyclone.load_data",
                        "points", [str(dp.name) for dp in data])
        ctx.done(case, nontrivial=False)
        return
    if model is not None and len(model) != len(pts):
        ctx.corr_fail(case, "number of data points", {"model": len(model), "code": len(data)})
        model = None
    s_prec = Fraction(case["precision"])
    nontrivial = False
    bad_oracle = bad_corr = False
    for i, (name, mem, p, size) in enumerate(pts):
        dp = data[i]
        if dp.value.shape != (S, G):
            ctx.oracle_fail(case, f"grid shape {dp.value.shape}", "data.pyclone.DataPoint.to_likelihood_grid", "shape")
            continue
        for s in range(S):
            for m in mem:
                r = m["rows"][s]
                if r["ref"] + r["alt"] > 0 and len(spec_genotypes(r["major"], r["minor"], r["normal"], r["eps"])) >= 2:
                    nontrivial = True
            for k in range(G):
                f = spec_ccf(G, k)
                exact = Fraction(1)
                for m in mem:
                    exact *= spec_lik(case["density"], s_prec, m["rows"][s], f)
                e = logq(exact)
                c = float(dp.value[s, k])
                if not close(c, e, tol) and not bad_oracle:
                    bad_oracle = True
                    ctx.oracle_fail(case, f"grid of '{name}' at sample {s}, CCF index {k} differs from the PyClone formula",
                                    "data.pyclone.load_data", "value", {"code": c, "formula": e})
                if model is not None and not bad_corr:
                    mq = parse_q(model[i]["grid"][s][k])
                    if not close(c, logq(mq), tol):
                        bad_corr = True
                        ctx.corr_fail(case, f"grid of '{name}' [{s},{k}]", {"code": c, "model": logq(mq)})
                    elif mq != exact:
                        bad_corr = True
                        ctx.corr_fail(case, f"model grid of '{name}' [{s},{k}] differs from the Fraction formula", None)
        # outlier prior terms
        co, cn = float(dp.outlier_prob), float(dp.outlier_prob_not)
        if p == 0:
            eo, en = 0.0, 0.0  # sentinel "outliers disabled": size x the per-mutation terms (0, log 1)
        else:
            eo, en = logq(p) * size, logq(1 - p) * size
        if not (close(co, eo, 1e-9) and close(cn, en, 1e-9)):
            ctx.oracle_fail(case, f"outlier terms of '{name}' are not size x (log p, log(1-p))", "data.pyclone.compute_outlier_prob",
                            "outlier", {"code": [co, cn], "formula": [eo, en], "p": float(p), "size": size})
        if model is not None:
            mo, mn = logq(parse_q(model[i]["op"])), logq(parse_q(model[i]["opn"]))
            if not (close(co, mo, 1e-9) and close(cn, mn, 1e-9)) or model[i]["disabled"] != (p == 0):
                ctx.corr_fail(case, f"outlier terms of '{name}'", {"code": [co, cn], "model": [mo, mn]})
    ctx.stat(f"points_{len(pts)}")
    ctx.done(case, nontrivial=nontrivial,
             sample={"density": case["density"], "G": G, "S": S, "mutations": len(muts), "clustered": bool(case.get("clusters"))})


def sumone_as_load(case):
    n = case["n"]
    muts = [{"id": f"m{b:05d}", "rows": [{"sample": "A", "ref": n - b, "alt": b, "major": case["major"], "minor": case["minor"],
                                          "normal": case["normal"], "t": case["t"], "eps": case["eps"]}]} for b in range(n + 1)]
    return {"kind": "load", "density": case["density"], "precision": case["precision"], "G": case["G"], "outlier_prob": "0.0001",
            "cols": {"tumour_content": True, "error_rate": True}, "muts": muts, "clusters": None, "shuffle": 1}


def check_sumone(ctx, case, use_model=True):
    """All alternate counts 0..n at fixed depth n: the grids must sum to one at every CCF grid point."""
    from scipy.special import logsumexp

    lc = sumone_as_load(case)
    with tempfile.TemporaryDirectory(prefix="c05_") as d:
        fn, cf = write_inputs(d, lc)
        muts = parsed_rows(fn, lc)
        data, _ = run_code(fn, None, lc)
    ctx.stat("sumone_depth_%s" % ("le60" if case["n"] <= 60 else "gt60"))
    vals = np.array([dp.value[0] for dp in data])
    tot = logsumexp(vals, axis=0)
    tol = 1e-9 if case["density"] == "binomial" else 1e-8
    if len(data) != case["n"] + 1 or not np.all(np.abs(tot) <= tol * max(1, case["n"])):
        ctx.oracle_fail(case, "likelihood summed over all alternate counts at fixed depth is not one", "data.pyclone.load_data",
                        "sum-one", {"log_total": [float(x) for x in tot]})
    if use_model and case["n"] <= 200:
        pts = ctx.ask(model_request(lc, muts, {}))["points"]
        for k in range(case["G"]):
            if sum(parse_q(p["grid"][0][k]) for p in pts) != 1:
                ctx.corr_fail(case, f"model grid at CCF index {k} does not sum to one over the alternate counts", None)
                break
        for i in (0, len(pts) // 2, len(pts) - 1):
            for k in range(case["G"]):
                if not close(float(data[i].value[0, k]), logq(parse_q(pts[i]["grid"][0][k])), tol):
                    ctx.corr_fail(case, f"sum-one file, alternate count {i}, CCF index {k}", None)
    ctx.done(case, nontrivial=case["n"] > 0, sample=case)


def check_genotypes(ctx, case, use_model=True):
    from phyclone.data.pyclone import get_major_cn_prior

    e = Fraction(float(case["eps"]))
    cn, mu, log_pi = get_major_cn_prior(np.int64(case["major"]), np.int64(case["minor"]), np.int64(case["normal"]), error_rate=float(case["eps"]))
    spec = spec_genotypes(case["major"], case["minor"], case["normal"], e)
    ctx.stat(f"genotypes_{len(spec)}")
    ok = len(cn) == len(spec) and all(tuple(int(x) for x in cn[i]) == spec[i][0] for i in range(len(spec))) \
        and all(abs(float(mu[i][j]) - float(spec[i][1][j])) <= 1e-15 for i in range(len(spec)) for j in range(3)) \
        and all(abs(float(lp) + math.log(len(spec))) <= 1e-12 for lp in log_pi)
    if not ok:
        ctx.oracle_fail(case, "genotype list / prior differs from the major-copy-number prior", "data.pyclone.get_major_cn_prior",
                        "genotypes", {"cn": cn.tolist(), "mu": mu.tolist(), "log_pi": log_pi.tolist()})
    if use_model:
        ans = ctx.ask({"op": "em_genotypes", "major": case["major"], "minor": case["minor"], "normal": case["normal"], "eps": fr(e)})
        same = [tuple(c) for c in ans["cn"]] == [tuple(int(x) for x in row) for row in cn] \
            and len(ans["mu"]) == len(mu) \
            and all(abs(float(Fraction(ans["mu"][i][j])) - float(mu[i][j])) <= 1e-15 for i in range(len(mu)) for j in range(3)) \
            and all(abs(logq(Fraction(ans["pi"][i])) - float(log_pi[i])) <= 1e-12 for i in range(len(mu)))
        if not same:
            ctx.corr_fail(case, "genotype list", {"model": ans, "code": [cn.tolist(), mu.tolist(), log_pi.tolist()]})
        elif [(tuple(c), tuple(Fraction(x) for x in m)) for c, m in zip(ans["cn"], ans["mu"])] != spec:
            ctx.corr_fail(case, "model genotype list differs from the specification", ans)
    ctx.done(case, nontrivial=len(spec) >= 2, sample=case)


def check_prims(ctx, case, use_model=True):
    """pmf primitives of utils/math.py: value against Fractions, sum over x = 0..n is one."""
    from phyclone.utils.math import log_binomial_pdf, log_beta_binomial_pdf
    from scipy.special import logsumexp

    n = case["n"]
    p, a, b = float(case["p"]), float(case["a"]), float(case["b"])
    P, A, B = Fraction(p), Fraction(a), Fraction(b)
    with np.errstate(all="ignore"):
        lb = [float(log_binomial_pdf(n, x, p)) for x in range(n + 1)]
        lbb = [float(log_beta_binomial_pdf(n, x, a, b)) for x in range(n + 1)]
    if abs(logsumexp(lb)) > 1e-9 or abs(logsumexp(lbb)) > 1e-8:
        ctx.oracle_fail(case, "pmf primitive does not sum to one over x = 0..n", "utils.math.log_binomial_pdf/log_beta_binomial_pdf",
                        "prim-sum-one", {"binomial": float(logsumexp(lb)), "beta-binomial": float(logsumexp(lbb))})
    for x in sorted({0, n // 3, n // 2, n}):
        eb = logq(math.comb(n, x) * P ** x * (1 - P) ** (n - x))
        ebb = logq(math.comb(n, x) * _rising_frac(A, x) * _rising_frac(B, n - x) / _rising_frac(A + B, n))
        if not close(lb[x], eb, TOL_BIN) or not close(lbb[x], ebb, TOL_BB):
            ctx.oracle_fail(case, f"pmf primitive value at x = {x}", "utils.math.log_binomial_pdf/log_beta_binomial_pdf", "prim-value",
                            {"binomial": [lb[x], eb], "beta-binomial": [lbb[x], ebb]})
            break
    ctx.stat("prims")
    ctx.done(case, nontrivial=n > 0, sample=case)


def float_lik(density, s, row, f):
    """Float evaluation of the property's formula (extreme depth): exact rational VAF, then logs."""
    gs = spec_genotypes(row["major"], row["minor"], row["normal"], row["eps"])
    n, x = row["ref"] + row["alt"], row["alt"]
    # log C(n, x) by an exact sum of logs of the smaller side
    k = min(x, n - x)
    i = np.arange(1, k + 1, dtype=np.float64)
    logc = float(np.sum(np.log((n - k + i) / i))) if k else 0.0
    terms = []
    for cn, mu in gs:
        v = spec_vaf(cn, mu, row["t"], f)
        if density == "binomial":
            t = x * logq(v) + (n - x) * logq(1 - v)
        else:
            a, b = float(v * s), float(s - v * s)
            t = (float(np.sum(np.log(a + np.arange(x, dtype=np.float64)))) + float(np.sum(np.log(b + np.arange(n - x, dtype=np.float64))))
                 - float(np.sum(np.log(float(s) + np.arange(n, dtype=np.float64)))))
        terms.append(logc + t - math.log(len(gs)))
    mx = max(terms)
    return mx + math.log(sum(math.exp(t - mx) for t in terms))


def check_extreme(ctx, case, use_model=True):
    lc = {"kind": "load", "density": case["density"], "precision": case["precision"], "G": case["G"], "outlier_prob": "0.0001",
          "cols": {"tumour_content": True, "error_rate": True}, "clusters": None,
          "muts": [{"id": "m", "rows": [{"sample": "A", **{k: case[k] for k in ("ref", "alt", "major", "minor", "normal", "t", "eps")}}]}]}
    with tempfile.TemporaryDirectory(prefix="c05_") as d:
        fn, _ = write_inputs(d, lc)
        muts = parsed_rows(fn, lc)
        data, _ = run_code(fn, None, lc)
    row = muts[0]["rows"][0]
    ctx.stat("extreme_depth")
    for k in range(case["G"]):
        e = float_lik(case["density"], Fraction(case["precision"]), row, spec_ccf(case["G"], k))
        c = float(data[0].value[0, k])
        if not (math.isfinite(c) and abs(c - e) <= 1e-7 * max(1.0, abs(e))):
            ctx.oracle_fail(case, f"extreme-depth grid at CCF index {k} differs from the formula", "data.pyclone.load_data",
                            "extreme", {"code": c, "formula": e})
            break
    ctx.done(case, nontrivial=True, sample=case)


KINDS = {"load": check_load, "malformed": check_load, "intcol": check_load, "clsize": check_load, "sumone": check_sumone, "genotypes": check_genotypes,
         "prims": check_prims, "extreme": check_extreme}


def check(ctx, case):
    ctx.stat("kind_" + case["kind"])
    KINDS[case["kind"]](ctx, case)


def search(ctx, failed_cases, rnd, deadline):
    """Oracle-only search (no model): the disagreeing inputs first, then fresh ones."""
    for c in list(failed_cases) + cases("quick", rnd):
        if time.time() > deadline or ctx.oracle_failures:
            break
        if c.get("kind") == "malformed":
            continue
        try:
            KINDS[c["kind"]](ctx, c, use_model=False)
        except Exception:
            ctx.stat("search_errors")
