"""C14 — memoised recursion and proposal results equal unmemoised computation.

Three layers:
* model correspondence: histories of calls / clears on the *real* decorated functions (rebuilt with a
  tiny capacity from `__wrapped__` so that evictions happen, or the module-level objects) are compared
  operation by operation with the Lean memo table (`Cache.run` on the exact-rational `logS` / `convM`,
  or on interned keys for the proposal caches): hit/miss, table size, returned value;
  plus abstract histories against `functools.lru_cache` itself;
* direct oracle (no model): every call of the four cached functions — in the unit drives and during
  real `run_phyclone_chain` runs with concentration updates, cache clears, all three proposals,
  outliers on/off, subtree moves — is shadowed by the unmemoised original (`__wrapped__`) evaluated on
  a snapshot of the same arguments at that moment and compared to 1e-12; returned arrays are
  checksummed at return time and again at the end (in-place mutation of cached values); arguments
  are checksummed around the call; the key premise (equal keys => equal arguments up to order) is
  checked on the observed history.
"""
import contextlib
import functools
import hashlib
import io
import json
import math
import time
from fractions import Fraction

import numpy as np

import phyclone.run as P_run
import phyclone.smc.kernels.fully_adapted as P_fa
import phyclone.smc.kernels.semi_adapted as P_sa
import phyclone.tree.tree_node as P_tn
import phyclone.tree.utils as P_tu
from phyclone.smc.swarm import Particle, TreeHolder
from phyclone.smc.utils import RootPermutationDistribution
from phyclone.utils.dev import clear_proposal_dist_caches
from phyclone.utils.utils import NumpyArrayListHasher, NumpyTwoArraysHasher, list_of_np_cache, two_np_arr_cache

from ..common import KERNELS, DataSet, build_tree, extract, fr, gen_dataset, gen_values, make_tree_dist, random_canon_tree

ID = "C14"
LEVEL = "proof"
EXPLANATION = (
    "Proved on the model for all histories: cache_sound (LRU table with capacity, clears, changing environment), the key "
    "premises of the two numeric caches (logS_respects_key via order-insensitivity of the children recursion, "
    "conv_respects_key via commutativity) and their instances logS_memo_sound / conv_memo_sound; the key-completeness of the "
    "proposal caches on the proposal model Model/Proposal.lean (proposal_key_complete: the proposal table of all three "
    "proposals is a function of (data point, kind, outlier proposal probability, perm setting, first, parent tree, alpha) "
    "and the new-clone tree with its cached densities of (parent, data point, children, alpha, perm setting), for a fixed "
    "data set) and the instances proposal_memo_sound / new_tree_memo_sound for every history of calls, clears and alpha "
    "changes at every capacity; concrete examples show that a key without alpha returns a stale table. The real code is tied "
    "to this by the shadow comparison (every call, 1e-12) and the hit/miss correspondence with the model table."
)
THEOREMS = [
    "cache_sound",
    "cache_sound_from_empty",
    "logS_perm",
    "logS_respects_key",
    "conv_respects_key",
    "logS_memo_sound",
    "conv_memo_sound",
    "logS_eq_prefixSum_D",
    "trace_values",
    "env_key_sound",
    "proposal_key_complete",
    "proposal_memo_sound",
    "new_tree_memo_sound",
]
BUDGET = {"quick": 150, "thorough": 900}
SEARCH_BUDGET = 60
RULE = (
    "kinds: lru (abstract call/clear histories, capacity 0..4, changing environment, vs functools.lru_cache and the model); "
    "logS / conv (histories over a pool of S x G dyadic matrices with single-entry variants, repeated and permuted children "
    "lists, capacity 0..3 or the module-level cache, vs model value/hit/size and vs the unmemoised original); prop (unit "
    "drive of the proposal caches: pools of equal-but-distinct parent particles, alpha changes with and without clears, "
    "returning alphas, sampling through get_cached_new_tree); run (real run_phyclone_chain, 3-5 data points, burn-in + "
    "iterations with concentration update, all three proposals, outliers on/off, subtree moves). A case is non-trivial "
    "when at least one cached function had a hit; distinct by input digest."
)
TRUSTED = [
    "functools.lru_cache (modelled by Cache.step; its hit/miss/eviction behaviour is compared with the model on every history of this run)",
    "xxhash digests are collision-free on the inputs of one process (key = content); arrays of one fixed grid shape per process",
    "IEEE-754: a hit on a permuted children list returns the value of another summation order - compared to 1e-12, not proved",
]
ASSUMPTIONS = [
    "one data set and one grid shape per process (DataPoint equality is by name; digests ignore the array shape); the harness clears all caches between cases",
    "data inside the underflow window (dyadic likelihood values >= 2^-4)",
]
TOL = 1e-12
TOL_MODEL = 1e-9


# ----------------------------------------------------------------------------------------- helpers
def logq(q):
    q = Fraction(q)
    return math.log(q.numerator) - math.log(q.denominator)


def close(a, b, tol=TOL):
    a, b = float(a), float(b)
    if a == b or (math.isnan(a) and math.isnan(b)):
        return True
    return abs(a - b) <= tol * max(1.0, abs(a), abs(b))


def arr_close(a, b, tol=TOL):
    a, b = np.asarray(a, dtype=float), np.asarray(b, dtype=float)
    if a.shape != b.shape:
        if a.ndim == 0 or b.ndim == 0:  # the scalar 0.0 of "no children"
            try:
                a, b = np.broadcast_arrays(a, b)
            except ValueError:
                return False
        else:
            return False
    if np.array_equal(a, b, equal_nan=True):
        return True
    with np.errstate(invalid="ignore"):
        scale = np.maximum(1.0, np.maximum(np.abs(a), np.abs(b)))
        ok = (np.abs(a - b) <= tol * scale) | (a == b) | (np.isnan(a) & np.isnan(b))
    return bool(np.all(ok))


def max_dev(a, b):
    a, b = np.asarray(a, dtype=float), np.asarray(b, dtype=float)
    try:
        with np.errstate(invalid="ignore"):
            d = np.abs(a - b)
        d = d[np.isfinite(d)]
        return float(d.max()) if d.size else 0.0
    except ValueError:
        return float("inf")


def digest_arr(x):
    if isinstance(x, np.ndarray):
        return hashlib.sha1(np.ascontiguousarray(x).tobytes() + str(x.shape).encode()).hexdigest()
    return repr(x)


def canon_key(tree):
    f, o = extract(tree, check=False)
    return json.dumps([f, o])


def fp_holder(holder):
    """Labelled identity of the tree a TreeHolder / Particle carries (what its __eq__ compares)."""
    d = holder._tree
    if not isinstance(d, dict):  # a holder that keeps the built tree instead of its dict form
        d = d.to_dict()
    return json.dumps(
        [
            [list(e) for e in d["graph"]],
            sorted((str(k), v) for k, v in d["node_idx"].items()),
            sorted((str(k), [dp.idx for dp in v]) for k, v in d["node_data"].items() if len(v)),
            str(d["node_last_added_to"]),
            list(d["grid_size"]),
        ]
    )


def fp_particle(p):
    return None if p is None else fp_holder(p._tree)


def fp_dp(dp):
    return (str(dp.name), dp.idx, digest_arr(dp.value), float(dp.outlier_prob), float(dp.outlier_prob_not))


def holder_summary(h):
    """Everything of a TreeHolder the samplers read."""
    return {
        "tree": canon_key(h.tree),
        "labelled": fp_holder(h),
        "log_p": float(h.log_p),
        "log_p_one": float(h.log_p_one),
        "log_pdf": float(h.log_pdf),
        "roots": [str(x) for x in h.tree_roots],
        "nodes": sorted(str(x) for x in h.tree_nodes),
        "last": str(h.node_last_added_to),
        "nchild": int(h.num_children_on_node_that_matters),
        "hash": hash(h),
    }


def cmp_summary(a, b):
    """None when equal (floats to TOL), else the first differing field."""
    for k in a:
        if k in ("log_p", "log_p_one", "log_pdf"):
            if not close(a[k], b[k]):
                return k, a[k], b[k]
        elif a[k] != b[k]:
            return k, a[k], b[k]
    return None


def proposal_summary(prop):
    """The full table of a semi-/fully-adapted proposal object, in the order sampling uses."""
    out = {"table": [(holder_summary(h), float(lq)) for h, lq in prop._log_p.items()]}
    if hasattr(prop, "_curr_trees"):
        out["curr"] = [fp_holder(h) for h in prop._curr_trees]
        out["q"] = [float(x) for x in prop._q_dist]
        out["empty"] = bool(prop.parent_is_empty_tree)
        if not prop.parent_is_empty_tree:
            out["log_old_roots"] = float(prop._cached_log_old_num_roots)
    out["parent"] = fp_particle(prop.parent_particle)
    out["dp"] = fp_dp(prop.data_point)
    out["op"] = float(prop.outlier_proposal_prob)
    return out


def cmp_proposal(a, b):
    if len(a["table"]) != len(b["table"]):
        return ("table size", len(a["table"]), len(b["table"]))
    for (ha, la), (hb, lb) in zip(a["table"], b["table"]):
        d = cmp_summary(ha, hb)
        if d:
            return (f"{d[0]} of table entry {ha['tree']}", d[1], d[2])
        if not close(la, lb):
            return ("log_q of " + ha["tree"], la, lb)
    for k in ("curr", "empty", "parent", "dp", "op"):
        if a.get(k) != b.get(k):
            return (k, a.get(k), b.get(k))
    if "q" in a:
        if len(a["q"]) != len(b["q"]) or any(not close(x, y) for x, y in zip(a["q"], b["q"])):
            return ("q", a["q"], b["q"])
    if "log_old_roots" in a and not close(a["log_old_roots"], b.get("log_old_roots", float("nan"))):
        return ("log_old_roots", a["log_old_roots"], b.get("log_old_roots"))
    return None


def raw_of(fn):
    """The unmemoised original (the function itself when it is not memoised at all)."""
    return getattr(fn, "__wrapped__", fn)


def hits_of(fn):
    ci = getattr(fn, "cache_info", None)
    return ci().hits if ci else 0


def size_of(fn):
    ci = getattr(fn, "cache_info", None)
    return ci().currsize if ci else 0


def cap_of(fn):
    ci = getattr(fn, "cache_info", None)
    if not ci:
        return 0
    m = ci().maxsize
    return 10 ** 6 if m is None else m


def clear_of(fn):
    getattr(fn, "cache_clear", lambda: None)()


class Interner:
    def __init__(self):
        self.ids = {}

    def __call__(self, key):
        return self.ids.setdefault(key, len(self.ids))


# ----------------------------------------------------------------------------------------- shadows
class Shadow:
    """Wraps the cached functions; every call is compared with the unmemoised original."""

    SITES = {
        "logS": "tree.utils.compute_log_S",
        "conv": "tree.utils._convolve_two_children",
        "semi": "smc.kernels.semi_adapted._get_cached_semi_proposal_dist",
        "full": "smc.kernels.fully_adapted._get_cached_full_proposal_dist",
        "newtree": "smc.kernels.semi_adapted.get_cached_new_tree",
    }

    def __init__(self, ctx, case, impl=None):
        self.ctx, self.case = ctx, case
        self.impl = real_fns()
        self.impl.update(impl or {})
        self.raw = {k: raw_of(v) for k, v in self.impl.items()}
        # above 1000 grid points the convolution goes through the FFT, whose rounding depends on the argument order: the
        # memoised value (first caller's order) and a fresh evaluation agree to the FFT's accuracy (C02: 1e-6 of the row
        # peak), not to the last bits; such cases carry their own tolerance
        self.tol = case.get("tol_shadow", TOL) if isinstance(case, dict) else TOL
        self.raw_mode = 0
        self.reported = set()
        self.returned = {}  # id -> (array, digest at return time)
        self.keymap = {k: {} for k in self.impl}
        self.events = {k: [] for k in self.impl}  # (key id, env id, hit) | "clear"
        self.intern = {k: Interner() for k in self.impl}
        self.env_intern = Interner()
        self.calls = {k: 0 for k in self.impl}
        self.hits = {k: 0 for k in self.impl}
        self.maxdev = 0.0
        self.saved = []

    # -- reporting
    def fail(self, which, signature, what, detail=None):
        if (which, signature) in self.reported:
            return
        self.reported.add((which, signature))
        self.ctx.oracle_fail(self.case, what, self.SITES[which], signature, detail)

    def _called(self, which, before):
        hit = hits_of(self.impl[which]) > before
        self.calls[which] += 1
        self.hits[which] += int(hit)
        return hit

    # -- numeric caches
    def raw_logS(self, snap):
        self.raw_mode += 1
        try:
            return self.raw["logS"](np.array(snap, order="C"))
        finally:
            self.raw_mode -= 1

    def logS(self, children, *a, **kw):
        if self.raw_mode:
            return self.raw["logS"](np.array(children, order="C"), *a, **kw)
        snap = [np.array(c, copy=True) for c in children]
        before = hits_of(self.impl["logS"])
        ret = self.impl["logS"](children, *a, **kw)
        hit = self._called("logS", before)
        if len(snap) != len(children) or any(not np.array_equal(s, c) for s, c in zip(snap, children)):
            self.fail("logS", "argument-mutated", "compute_log_S changed its arguments")
        ref = self.raw_logS(snap)
        if not arr_close(ret, ref, self.tol):
            self.fail("logS", "value", f"memoised compute_log_S ({'hit' if hit else 'miss'}) differs from the unmemoised value",
                      {"max_abs_dev": max_dev(ret, ref), "children": len(snap)})
        else:
            self.maxdev = max(self.maxdev, max_dev(ret, ref))
        self._remember(ret)
        h = NumpyArrayListHasher(snap).h
        fp = tuple(sorted(digest_arr(s) for s in snap))
        old = self.keymap["logS"].setdefault(h, fp)
        if old != fp:
            self.fail("logS", "key-premise", "two children lists that are not permutations of each other have the same cache key")
        self.events["logS"].append((self.intern["logS"](fp), 0, hit))
        return ret

    def conv(self, a, b, *args, **kw):
        if self.raw_mode:
            return self.raw["conv"](a, b, *args, **kw)
        sa, sb = np.array(a, copy=True), np.array(b, copy=True)
        before = hits_of(self.impl["conv"])
        ret = self.impl["conv"](a, b, *args, **kw)
        hit = self._called("conv", before)
        if not (np.array_equal(sa, a) and np.array_equal(sb, b)):
            self.fail("conv", "argument-mutated", "_convolve_two_children changed its arguments")
        ref = self.raw["conv"](sa, sb)
        if not arr_close(ret, ref, self.tol):
            self.fail("conv", "value", f"memoised _convolve_two_children ({'hit' if hit else 'miss'}) differs from the unmemoised value",
                      {"max_abs_dev": max_dev(ret, ref)})
        else:
            self.maxdev = max(self.maxdev, max_dev(ret, ref))
        self._remember(ret)
        h = NumpyTwoArraysHasher(sa, sb).h
        fp = tuple(sorted([digest_arr(sa), digest_arr(sb)]))
        old = self.keymap["conv"].setdefault(h, fp)
        if old != fp:
            self.fail("conv", "key-premise", "two different unordered pairs have the same cache key")
        self.events["conv"].append((self.intern["conv"](fp), 0, hit))
        return ret

    def _remember(self, ret):
        if isinstance(ret, np.ndarray):
            d = digest_arr(ret)
            old = self.returned.get(id(ret))
            if old is not None and old[0] is ret and old[1] != d:
                self.fail("logS", "cached-value-mutated", "an array handed out by a numeric cache was modified in place afterwards")
            self.returned[id(ret)] = (ret, d)

    def final_checks(self):
        for arr, d in self.returned.values():
            if digest_arr(arr) != d:
                self.fail("logS", "cached-value-mutated", "an array handed out by a numeric cache was modified in place afterwards")
                break

    # -- proposal caches
    def _proposal(self, which, args, kw):
        data_point, kernel, parent = args[0], args[1], args[2]
        built = None
        if parent is not None and len(parent._built_tree):
            built = parent._built_tree[-1]
        alpha_now = float(kernel.tree_dist.prior.alpha)
        before = hits_of(self.impl[which])
        ret = self.impl[which](*args, **kw)
        hit = self._called(which, before)
        # unmemoised original on the same arguments at this moment (the parent tree is a pop-once deque)
        if parent is not None:
            parent.built_tree = built.copy() if built is not None else None
        fresh = self.raw[which](*args, **kw)
        if parent is not None and hit:
            parent.built_tree = built
        d = cmp_proposal(proposal_summary(ret), proposal_summary(fresh))
        if d:
            self.fail(which, "value", f"cached proposal distribution ({'hit' if hit else 'miss'}) differs from a fresh one: {d[0]}",
                      {"cached": d[1], "fresh": d[2], "alpha": alpha_now})
        fp = (fp_dp(data_point), id(kernel), fp_particle(parent), float(args[3]), alpha_now, float(kernel.tree_dist.prior.c_const))
        self._key_premise(which, tuple(args), fp)
        self.events[which].append((self.intern[which](fp[:4]), self.env_intern(alpha_now), hit))
        return ret

    def semi(self, *args, **kw):
        return self._proposal("semi", args, kw)

    def full(self, *args, **kw):
        return self._proposal("full", args, kw)

    def newtree(self, *args, **kw):
        parent, data_point, children, tree_dist, perm_dist = args[:5]
        alpha_now = float(tree_dist.prior.alpha)
        before = hits_of(self.impl["newtree"])
        ret = self.impl["newtree"](*args, **kw)
        hit = self._called("newtree", before)
        fresh = self.raw["newtree"](*args, **kw)
        d = cmp_summary(holder_summary(ret), holder_summary(fresh))
        if d:
            self.fail("newtree", "value", f"cached new-clone tree ({'hit' if hit else 'miss'}) differs from a fresh one: {d[0]}",
                      {"cached": d[1], "fresh": d[2], "alpha": alpha_now})
        fp = (fp_dp(data_point), id(perm_dist), fp_particle(parent), tuple(sorted(str(c) for c in children)), alpha_now,
              float(tree_dist.prior.c_const))
        self._key_premise("newtree", tuple(args), fp)
        self.events["newtree"].append((self.intern["newtree"](fp[:4]), self.env_intern(alpha_now), hit))
        return ret

    def _key_premise(self, which, key, fp):
        try:
            old = self.keymap[which].setdefault(key, fp)
        except TypeError:
            return
        if old != fp:
            self.fail(which, "key-premise", "equal cache keys for calls whose arguments / environment differ",
                      {"first": repr(old)[:300], "now": repr(fp)[:300]})

    def cleared(self):
        for k in ("semi", "full", "newtree"):
            self.events[k].append("clear")
            self.keymap[k] = {}  # the key premise is about entries that can still be hit

    # -- install
    def _wrap(self, which):
        fn = getattr(self, which)

        @functools.wraps(self.raw[which])
        def w(*a, **kw):
            return fn(*a, **kw)

        for attr in ("cache_info", "cache_clear"):
            if hasattr(self.impl[which], attr):
                setattr(w, attr, getattr(self.impl[which], attr))
        w.__wrapped__ = self.raw[which]
        return w

    def __enter__(self):
        targets = [
            (P_tn, "compute_log_S", "logS"),
            (P_tu, "compute_log_S", "logS"),
            (P_tu, "_convolve_two_children", "conv"),
            (P_sa, "_get_cached_semi_proposal_dist", "semi"),
            (P_fa, "_get_cached_full_proposal_dist", "full"),
            (P_sa, "get_cached_new_tree", "newtree"),
        ]
        for mod, name, which in targets:
            self.saved.append((mod, name, getattr(mod, name)))
            setattr(mod, name, self._wrap(which))
        orig_clear = P_run.clear_proposal_dist_caches
        self.saved.append((P_run, "clear_proposal_dist_caches", orig_clear))

        def clear_and_log():
            orig_clear()
            self.cleared()

        P_run.clear_proposal_dist_caches = clear_and_log
        return self

    def __exit__(self, *exc):
        for mod, name, val in reversed(self.saved):
            setattr(mod, name, val)
        self.saved = []
        return False

    # -- model correspondence of the hit/miss pattern on interned keys
    def check_events(self, caps, use_model=True):
        if not use_model:
            return
        for which, ev in self.events.items():
            if not any(e != "clear" for e in ev):
                continue
            ops = ["clear" if e == "clear" else [e[1], e[0]] for e in ev]
            ans = self.ctx.ask({"op": "cache_env", "cap": caps[which], "withEnv": True, "ops": ops})
            for i, (e, m) in enumerate(zip(ev, ans)):
                if e != "clear" and bool(m["hit"]) != bool(e[2]):
                    self.ctx.corr_fail(self.case, f"{which}: call #{i} of the observed history is a {'hit' if e[2] else 'miss'} in the code "
                                       f"but a {'hit' if m['hit'] else 'miss'} in the model table (capacity {caps[which]})",
                                       {"history_len": len(ev)})
                    break

    def stats(self):
        for k in self.calls:
            self.ctx.stat(f"{k}_calls", self.calls[k])
            self.ctx.stat(f"{k}_hits", self.hits[k])


def real_fns():
    return {
        "logS": P_tu.compute_log_S,
        "conv": P_tu._convolve_two_children,
        "semi": P_sa._get_cached_semi_proposal_dist,
        "full": P_fa._get_cached_full_proposal_dist,
        "newtree": P_sa.get_cached_new_tree,
    }


def clear_all():
    clear_proposal_dist_caches()
    for f in real_fns().values():
        clear_of(f)


def real_caps():
    """Capacities as the code declares them (a resized or removed cache is not a violation)."""
    return {k: cap_of(f) for k, f in real_fns().items()}


# ----------------------------------------------------------------------------------------- cases
def gen_pool(rnd, S, G, k):
    """k matrices: a few independent ones plus single-entry variants (any row, any column)."""
    pool = [gen_values(rnd, S, G, bits=rnd.choice([2, 3, 4]))]
    while len(pool) < k:
        if rnd.random() < 0.5:
            base = [row[:] for row in rnd.choice(pool)]
            s, g = rnd.randrange(S), rnd.randrange(G)
            den = rnd.choice([4, 8, 16])
            new = Fraction(rnd.randint(1, den), den)
            if new == base[s][g]:
                new = Fraction(1, 32)
            base[s][g] = new
            if S > 1 and rnd.random() < 0.3:  # same rows in another order
                rnd.shuffle(base)
            cand = base
        else:
            cand = gen_values(rnd, S, G, bits=rnd.choice([2, 3, 4]))
        if cand not in pool:
            pool.append(cand)
    return pool


def gen_numeric_case(rnd, kind, big):
    S, G = rnd.randint(1, 3), rnd.randint(2, 6 if big else 5)
    pool = gen_pool(rnd, S, G, rnd.randint(2, 6))
    cap = rnd.choice([0, 1, 2, 2, 3, None])
    ops, lists = [], []
    for _ in range(rnd.randint(6, 40 if big else 18)):
        r = rnd.random()
        if r < 0.08:
            ops.append("clear")
            continue
        if kind == "conv":
            if lists and r < 0.5:
                a, b = rnd.choice(lists)
                if rnd.random() < 0.6:
                    a, b = b, a
            else:
                a, b = rnd.randrange(len(pool)), rnd.randrange(len(pool))
            lists.append((a, b))
            ops.append([a, b])
        else:
            if lists and r < 0.55:
                l = list(rnd.choice(lists))
                rnd.shuffle(l)
                if rnd.random() < 0.2 and len(l) > 1:  # same set, other multiplicities
                    l[0] = l[-1]
            else:
                l = [rnd.randrange(len(pool)) for _ in range(rnd.choice([0, 1, 1, 2, 2, 3, 3, 4, 5]))]
            lists.append(tuple(l))
            ops.append(l)
    return {"kind": kind, "G": G, "S": S, "cap": cap, "pool": [[[fr(x) for x in row] for row in m] for m in pool], "ops": ops}


def gen_big_grid_case(rnd):
    """grids of >= 1000 points take the FFT path of `_convolve_two_children` (and any other large-grid special case): a pair
    is convolved first, then supersets that reuse the memoised pair, in other orders, with hits on both tables"""
    G = rnd.choice([1000, 1001])
    pool = [gen_values(rnd, 1, G, bits=2) for _ in range(3)]
    a, b, c = rnd.sample(range(3), 3)
    ops = [[a, b], [a, b, c], [b, a], [c, b, a]]
    if rnd.random() < 0.5:
        ops.insert(2, "clear")
    return {"kind": "logS", "G": G, "S": 1, "cap": None, "pool": [[[fr(x) for x in row] for row in m] for m in pool], "ops": ops,
            "tol": 1e-6, "tol_shadow": 1e-7}


def gen_lru_case(rnd):
    cap = rnd.choice([0, 1, 2, 3, 4])
    ops = []
    for _ in range(rnd.randint(5, 40)):
        if rnd.random() < 0.1:
            ops.append("clear")
        else:
            ops.append([rnd.randrange(2), rnd.randrange(4)])
    return {"kind": "lru", "cap": cap, "ops": ops}


def shuffled(rnd, forest):
    out = [[d, shuffled(rnd, k)] for d, k in forest]
    rnd.shuffle(out)
    return out


def nest_variants(forest):
    """every forest obtained by moving one clone (with its subtree) under its next sibling as that sibling's first
    child.  `build_tree` names clones in post-order, and post(c1), post(c2) = post(c2 with c1 as first child): the variant
    has the same clusters under the same node names - and, when the move is below the last root, the same roots, the
    same last-added node and the same child count there - but another topology.  A key that summarises a parent by
    such fields confuses the two."""
    import copy

    out = []

    def walk(lst, path):
        for i in range(len(lst) - 1):
            out.append(path + [i])
        for i, nd in enumerate(lst):
            walk(nd[1], path + [i])

    walk(forest, [])
    res = []
    for path in out:
        g = copy.deepcopy(forest)
        lst = g
        for i in path[:-1]:
            lst = lst[i][1]
        c1 = lst.pop(path[-1])
        lst[path[-1]][1].insert(0, c1)
        res.append((len(path), g))
    return res


def deep_forest(rnd, k):
    """k data points in >= min(k, 4) clones, hung preferably below the newest clone (deep and bushy at the bottom)"""
    m = rnd.randint(min(k, 4), k)
    pts = list(range(k))
    rnd.shuffle(pts)
    groups = [[d] for d in pts[:m]]
    for d in pts[m:]:
        rnd.choice(groups).append(d)
    nodes = [[sorted(g), []] for g in groups]
    top = [nodes[0]]
    for i in range(1, m):
        r = rnd.random()
        if r < 0.15:
            top.append(nodes[i])
        else:
            rnd.choice(nodes[max(0, i - 2):i])[1].append(nodes[i])
    return top


def gen_prop_case(rnd, big):
    n = rnd.randint(3, 6 if big else 5)
    if rnd.random() < 0.35:
        n = rnd.randint(5, 7 if big else 6)  # room for >= 4 nested clones below one root
    op = rnd.choice([Fraction(0), Fraction(1, 10), Fraction(1, 4)])
    ds = gen_dataset(rnd, n, S=rnd.randint(1, 2), G=rnd.randint(3, 5), bits=3, outlier_prob=op)
    parents = []
    for _ in range(rnd.randint(2, 5)):
        k = rnd.choice([0, 1] + list(range(2, n)) * 3)
        if k == 0:
            parents.append({"k": 0, "forest": None, "outs": []})
        else:
            f, o = random_canon_tree(rnd, k, outliers=(op > 0), max_out=k)
            if k >= 4 and rnd.random() < 0.6:
                f, o = deep_forest(rnd, k), []
            parents.append({"k": k, "forest": f, "outs": o})
            vs = nest_variants(f)
            deep = [g for d, g in vs if d >= 2] or [g for d, g in vs]
            if deep and rnd.random() < 0.8:  # same clusters under the same names, another topology
                parents.append({"k": k, "forest": rnd.choice(deep), "outs": o})
            for _ in range(5):  # the same tree built in another sibling order: other node labels, another key
                g = shuffled(rnd, f)
                if g != f and rnd.random() < 0.7:
                    parents.append({"k": k, "forest": g, "outs": o})
                    break
    ops = []
    for _ in range(rnd.randint(8, 40 if big else 24)):
        r = rnd.random()
        if r < 0.12:
            ops.append(["alpha", rnd.randrange(3)])
        elif r < 0.22:
            ops.append(["clear"])
        else:
            ops.append(["call", rnd.randrange(len(parents)), rnd.random() < 0.5, rnd.randint(0, 3), rnd.randrange(1 << 30)])
    return {
        "kind": "prop",
        "data": ds.to_json(),
        "proposal": rnd.choice(["semi-adapted", "semi-adapted", "fully-adapted"]),
        "perm": rnd.random() < 0.7,
        "kernel_op": rnd.choice([0.0, 0.1]) if op == 0 else 0.1,
        "alphas": [rnd.choice([1.0, 0.5]), rnd.choice([2.0, 0.25]), rnd.choice([3.5, 1e-3])],
        "cap": rnd.choice([None, None, 1, 2, 3]),
        "parents": parents,
        "ops": ops,
    }


def gen_run_case(rnd, big):
    n = rnd.randint(3, 7 if big else 5)
    op = rnd.choice([Fraction(0), Fraction(1, 10)])
    ds = gen_dataset(rnd, n, S=rnd.randint(1, 2), G=rnd.randint(3, 6), bits=3, outlier_prob=op)
    return {
        "kind": "run",
        "data": ds.to_json(),
        "proposal": rnd.choice(["bootstrap", "semi-adapted", "semi-adapted", "fully-adapted", "fully-adapted"]),
        "particles": rnd.randint(3, 10 if big else 6),
        "burnin": rnd.randint(0, 3),
        "iters": rnd.randint(3, 12 if big else 6),
        "alpha0": rnd.choice([1.0, 0.3, 2.5]),
        "subtree": rnd.choice([0.0, 0.5, 0.5, 1.0]),
        "threshold": rnd.choice([0.5, 0.5, 1.0, 0.0]),
        "seed": rnd.randrange(1 << 30),
    }


def cases(tier, rnd):
    big = tier == "thorough"
    mult = 14 if big else 1
    out = []
    for _ in range(20 * mult):
        out.append(gen_lru_case(rnd))
    for _ in range(40 * mult):
        out.append(gen_numeric_case(rnd, "logS", big))
    for _ in range(25 * mult):
        out.append(gen_numeric_case(rnd, "conv", big))
    for _ in range(2 if not big else 6):
        out.append(gen_big_grid_case(rnd))
    for _ in range(40 * mult):
        out.append(gen_prop_case(rnd, big))
    for _ in range(45 * mult):
        out.append(gen_run_case(rnd, big))
    # malformed inputs the model must reject, not default
    out.append({"kind": "malformed", "req": {"op": "cache_logS", "G": 3, "S": 2, "cap": 1, "ops": [{"c": [[["1/2", "1/2", "1/2"]]]}]}})
    out.append({"kind": "malformed", "req": {"op": "cache_conv", "G": 2, "S": 1, "cap": 1, "ops": [{"a": [["1/2", "1/2", "1/2"]], "b": [["1/2", "1/2"]]}]}})
    out.append({"kind": "malformed", "req": {"op": "cache_env", "cap": 1, "withEnv": True, "ops": ["purge"]}})
    out.append({"kind": "malformed", "req": {"op": "cache_logS", "G": 0, "S": 1, "cap": 1, "ops": []}})
    return out


# ----------------------------------------------------------------------------------------- checks
def check(ctx, case, use_model=True):
    kind = case["kind"]
    ctx.stat("kind_" + kind)
    clear_all()
    try:
        if kind == "lru":
            return check_lru(ctx, case, use_model)
        if kind in ("logS", "conv"):
            return check_numeric(ctx, case, use_model)
        if kind == "prop":
            return check_prop(ctx, case, use_model)
        if kind == "run":
            return check_run(ctx, case, use_model)
        if kind == "malformed":
            return check_malformed(ctx, case, use_model)
        raise ValueError("unknown case kind " + str(kind))
    finally:
        clear_all()


def check_malformed(ctx, case, use_model):
    if use_model:
        from ..leanio import ModelError

        try:
            ctx.ask(case["req"])
        except ModelError:
            ctx.stat("malformed_rejected")
        else:
            ctx.corr_fail(case, "model accepted a malformed request", None)
    ctx.done(case, nontrivial=False)


def check_lru(ctx, case, use_model):
    """Abstract history: functools.lru_cache vs the model table vs direct evaluation."""
    cap, ops = case["cap"], case["ops"]
    f = lambda e, a: 1000003 * e + a

    cached = functools.lru_cache(maxsize=cap)(f)
    real = []
    for o in ops:
        if o == "clear":
            cached.cache_clear()
            real.append((False, None, 0))
            continue
        before = cached.cache_info()
        v = cached(o[0], o[1])
        info = cached.cache_info()
        real.append((info.hits > before.hits, v, info.currsize))
        if v != f(o[0], o[1]):
            ctx.oracle_fail(case, "lru_cache returned a value differing from the function", "functools.lru_cache", "value")
    if use_model:
        ans = ctx.ask({"op": "cache_env", "cap": cap, "withEnv": True, "ops": ops})
        model = [(bool(m["hit"]), m["val"], m["size"]) for m in ans]
        if model != real:
            i = next(i for i, (x, y) in enumerate(zip(model, real)) if x != y)
            ctx.corr_fail(case, f"operation #{i}: lru_cache {real[i]} vs model {model[i]}", None)
    ctx.stat("lru_hits", sum(1 for r in real if r[0]))
    ctx.done(case, nontrivial=any(r[0] for r in real), sample=case)


def check_numeric(ctx, case, use_model):
    kind, G, S, cap = case["kind"], case["G"], case["S"], case["cap"]
    pool = [[[Fraction(x) for x in row] for row in m] for m in case["pool"]]
    mk = lambda i: np.log(np.array([[float(v) for v in row] for row in pool[i]], dtype=float))
    ctx.stat(f"{kind}_cap_{cap}")
    if kind == "logS":
        target = P_tu.compute_log_S if cap is None else list_of_np_cache(maxsize=cap)(raw_of(P_tu.compute_log_S))
    else:
        target = P_tu._convolve_two_children if cap is None else two_np_arr_cache(maxsize=cap)(raw_of(P_tu._convolve_two_children))
    sh = Shadow(ctx, case, impl={kind: target})
    real = []
    with sh:
        fn = sh.logS if kind == "logS" else sh.conv
        for o in case["ops"]:
            if o == "clear":
                clear_of(target)
                real.append(None)
                continue
            before = hits_of(target)
            if kind == "logS":
                v = fn([mk(i) for i in o])
            else:
                v = fn(mk(o[0]), mk(o[1]))
            real.append((hits_of(target) > before, np.array(v, copy=True), size_of(target)))
        sh.final_checks()
    sh.stats()
    if use_model:
        mops = []
        for o in case["ops"]:
            if o == "clear":
                mops.append("clear")
            elif kind == "logS":
                mops.append({"c": [case["pool"][i] for i in o]})
            else:
                mops.append({"a": case["pool"][o[0]], "b": case["pool"][o[1]]})
        ans = ctx.ask({"op": "cache_" + kind, "G": G, "S": S, "cap": cap_of(target), "ops": mops})
        for i, (r, m) in enumerate(zip(real, ans)):
            if r is None:
                if m["val"] is not None or m["size"] != 0:
                    ctx.corr_fail(case, f"operation #{i}: clear in the code, {m} in the model", None)
                continue
            if bool(m["hit"]) != r[0] or m["size"] != r[2]:
                ctx.corr_fail(case, f"operation #{i} {case['ops'][i]}: code (hit={r[0]}, size={r[2]}) vs model (hit={m['hit']}, size={m['size']})", None)
                break
            mv = np.array([[logq(x) for x in row] for row in m["val"]])
            if not arr_close(r[1], mv, case.get("tol", TOL_MODEL)):
                ctx.corr_fail(case, f"operation #{i} {case['ops'][i]}: value differs from the model", {"code": np.asarray(r[1]).tolist(), "model": mv.tolist()})
                break
    hits = sum(1 for r in real if r and r[0])
    if G >= 1000:
        ctx.stat("grid_1000_or_more_fft_path")
    ctx.done(case, nontrivial=hits > 0, sample={k: case[k] for k in ("kind", "G", "S", "cap", "ops")})


def setup_prop(case):
    ds = DataSet.from_json(case["data"])
    tree_dist = make_tree_dist(case["alphas"][0])
    perm = RootPermutationDistribution() if case["perm"] else None
    rng = np.random.default_rng(12345)
    kernel = KERNELS[case["proposal"]](tree_dist, rng, outlier_proposal_prob=case["kernel_op"], perm_dist=perm)
    return ds, tree_dist, perm, kernel


def check_prop(ctx, case, use_model):
    ds, tree_dist, perm, kernel = setup_prop(case)
    which = "semi" if case["proposal"] == "semi-adapted" else "full"
    cap = case["cap"]
    impl, caps = {}, real_caps()
    if cap is not None:
        impl[which] = functools.lru_cache(maxsize=cap)(raw_of(real_fns()[which]))
        impl["newtree"] = functools.lru_cache(maxsize=cap)(raw_of(P_sa.get_cached_new_tree))
        caps[which] = caps["newtree"] = cap
    ctx.stat(f"prop_{which}_cap_{cap}")

    def mk_parent(p):
        if p["forest"] is None:
            return None, None
        t = build_tree(ds.real, p["forest"], p["outs"])
        return Particle(0.0, None, t, tree_dist, perm), t

    sh = Shadow(ctx, case, impl=impl)
    with sh:
        for o in case["ops"]:
            if o[0] == "alpha":
                tree_dist.prior.alpha = case["alphas"][o[1]]
            elif o[0] == "clear":
                clear_proposal_dist_caches()
                for f in impl.values():
                    f.cache_clear()
                sh.cleared()
            else:
                _, pi, pass_built, nsamp, seed = o
                p = case["parents"][pi]
                particle, t = mk_parent(p)  # a distinct but equal particle every time
                dp = ds.real[p["k"]]
                kernel._rng = np.random.default_rng(seed)
                prop = kernel.get_proposal_distribution(dp, particle, t.copy() if (pass_built and t is not None) else None)
                prop._rng = kernel._rng
                for _ in range(nsamp):
                    tr = prop.sample()
                    lq = prop.log_p(tr)
                    if not (lq <= 1e-9):
                        sh.fail(which, "log_q-positive", "proposal log probability above 0", {"log_q": float(lq)})
        sh.final_checks()
    sh.stats()
    sh.check_events(caps, use_model)
    hits = sum(sh.hits.values())
    ctx.stat("prop_alpha_changes", sum(1 for o in case["ops"] if o[0] == "alpha"))
    ctx.done(case, nontrivial=sh.hits[which] + sh.hits["newtree"] > 0,
             sample={k: case[k] for k in ("kind", "proposal", "perm", "kernel_op", "alphas", "cap", "parents", "ops")})


def check_run(ctx, case, use_model):
    ds = DataSet.from_json(case["data"])
    op = float(ds.outlier_prob)
    rng = np.random.default_rng(case["seed"])
    ctx.stat("run_" + case["proposal"] + ("_outliers" if op > 0 else ""))
    sh = Shadow(ctx, case)
    alphas = []
    with sh:
        try:
            with contextlib.redirect_stdout(io.StringIO()):
                res = P_run.run_phyclone_chain(
                    case["burnin"], True, case["alpha0"], ds.real, float("inf"), case["iters"], case["particles"], 1, 1, op,
                    10 ** 9, case["proposal"], case["threshold"], rng, [f"s{i}" for i in range(ds.S)], 1, 0, case["subtree"],
                )
            alphas = [float(x["alpha"]) for x in res["trace"]]
        except Exception as e:  # a crash of the sampler is another property's business (C19); the shadows still ran
            ctx.stat("run_exception_" + type(e).__name__)
        sh.final_checks()
    sh.stats()
    sh.check_events(real_caps(), use_model)
    ctx.stat("run_distinct_alphas", len(set(alphas)))
    ctx.stat("maxdev_above_1e-14", int(sh.maxdev > 1e-14))
    hits = sum(sh.hits.values())
    ctx.done(case, nontrivial=hits > 0 and len(set(alphas)) > 1,
             sample={k: case[k] for k in case if k != "data"} | {"n": ds.n, "G": ds.G, "S": ds.S, "hits": dict(sh.hits), "calls": dict(sh.calls)})


def search(ctx, failed_cases, rnd, deadline):
    """Oracle-only search (shadow comparison, no model): the disagreeing inputs first, then fresh ones."""
    for c in list(failed_cases) + cases("quick", rnd):
        if time.time() > deadline or ctx.oracle_failures:
            break
        if c.get("kind") == "malformed":
            continue
        try:
            check(ctx, c, use_model=False)
        except Exception:
            ctx.stat("search_errors")


class _OracleOnly:
    """Minimal ctx for shrinking: keeps oracle failures, ignores everything else, never asks the model."""

    def __init__(self):
        self.oracle_failures = []
        self.evaluations = 0

    def stat(self, *a, **k):
        pass

    def done(self, *a, **k):
        pass

    def corr_fail(self, *a, **k):
        pass

    def oracle_fail(self, case, what, site, signature=None, detail=None):
        self.oracle_failures.append({"case": case, "what": what, "site": site, "signature": signature, "detail": detail})


def _still_fails(case, site, signature):
    c = _OracleOnly()
    try:
        check(c, case, use_model=False)
    except Exception:
        return None
    return next((f for f in c.oracle_failures if f["site"] == site and f["signature"] == signature), None)


def shrink(failure):
    """Greedy: drop operations of a history (or iterations / particles of a run) while the same
    failure (site and signature) persists."""
    case = failure["case"]
    kind = case.get("kind")
    site, sig = failure["site"], failure["signature"]
    deadline = time.time() + 25
    best = failure
    if kind == "run":
        for key, lo in (("iters", 1), ("burnin", 0), ("particles", 2)):
            while time.time() < deadline and best["case"][key] > lo:
                f = _still_fails(dict(best["case"], **{key: best["case"][key] - 1}), site, sig)
                if not f:
                    break
                best = f
        return best
    if kind not in ("prop", "logS", "conv"):
        return failure
    ops = list(case["ops"])
    i = len(ops) - 1
    while i >= 0 and time.time() < deadline:
        f = _still_fails(dict(case, ops=ops[:i] + ops[i + 1:]), site, sig)
        if f:
            ops = ops[:i] + ops[i + 1:]
            best = f
        i -= 1
    return best
