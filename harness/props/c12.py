"""C12 — result tables list every mutation once per sample, consistent with the tree.

A case is a whole trace (as `run.py` writes it, through the real `create_main_run_output`) on which the
three real commands are run (`write_map_results` both map types, `write_consensus_results` both weight
types, `write_topology_report` with archive), or a direct call of `get_clone_table` (function level:
fill-in paths and inputs the code must reject).  TABLE.tsv / TREE.nwk are parsed with the csv module and a
small Newick parser and compared (a) with the Lean model's rows / Newick (`op table`), (b) with a direct
oracle that never consults the model."""
import contextlib
import csv
import gzip
import io
import math
import os
import pickle
import shutil
import tarfile
import tempfile
from collections import Counter, defaultdict
from fractions import Fraction

import numpy as np
import pandas as pd

from ..common import gen_values, make_dp, random_canon_tree, build_tree, fr, forest_size
from phyclone.process_trace import process_trace as pt
from phyclone.process_trace.map import get_map_node_ccfs_and_clonal_prev_dicts

ID = "C12"
LEVEL = "proof"
THEOREMS = [
    "rows_perm_product",
    "each_mutation_once_per_sample",
    "clone_in_tree_or_minus1",
    "clone_is_holder",
    "cluster_shares_clone",
    "ccf_prev_of_clone",
    "outlier_rows_minus1",
    "values_in_unit_interval",
    "table_total",
]
BUDGET = {"quick": 100, "thorough": 600}
RULE = ("traces of 1-3 chains x 1-5 (thorough: up to 4 x 8) recorded trees over 1-6 (quick) / 1-9 (thorough) data points, 1-3 samples, grid 2-7, "
        "dyadic likelihoods; trees drawn from a small pool per trace (so topologies repeat and majorities exist) made of random "
        "forests with/without outliers, all-outlier trees, single-clone trees, several top-level clones, plus a fixed mixture "
        "whose consensus has a clone without own mutations; unclustered (data point = mutation) and clustered (integer cluster "
        "ids, 1-3 mutations per cluster, per-sample cluster-file rows, sometimes a cluster with no data point); every trace is "
        "written by the real create_main_run_output and read by the real map (joint-likelihood, frequency), consensus (counts, "
        "joint-likelihood) and topology-report (archive) commands; plus direct get_clone_table calls with data points missing "
        "from the tree and inputs the code must reject (empty sample list, non-integer / unknown cluster id, data index out of "
        "range).  A case is non-trivial when some tree has >= 2 clones, or outliers, or the input is clustered; distinct by "
        "input digest.")
TRUSTED = [
    "the per-clone CCF / clonal-prevalence dictionaries are an input of the table model (their correctness is C10); the harness "
    "reads them from the real get_map_node_ccfs_and_clonal_prev_dicts on the tree the command tabulated",
    "the tree each command tabulates is observed by wrapping process_trace.get_clone_table at run time (which tree is chosen is "
    "C11 / C16)",
    "pandas DataFrame / groupby / sort / explode / to_csv, csv parsing, tarfile, pickle, gzip are outside the model; row order is "
    "not modelled (rows compared as sorted lists)",
    "the Newick string is compared after parsing it with the harness's own parser (unordered children)",
]
ASSUMPTIONS = [
    "trees are well formed (every data point in exactly one clone or the outlier list — C07) and node ids are non-negative integers",
    "cluster ids are integers and each mutation is assigned to exactly one cluster in the cluster table (as PyClone-VI emits)",
    "mutation ids and sample ids contain no tab / newline characters; sample ids are distinct",
]
EXPLANATION = (
    "All nine property theorems are proved for the table model (any forest shape incl. no clone at all and clones without own "
    "data points, any outlier set, clustered and unclustered, any number of samples).  Tied by the correspondence only, not by a "
    "theorem: (i) that the Newick *string* denotes the model's forest (the model prints it with the visitor's rule; the harness "
    "parses the code's and the model's string and compares them and the node set with `LF.ids`); (ii) that the CCF computation "
    "itself completes on every tree (an input of the table model; exercised on every case, incl. the F8 all-outlier trees of the "
    "corpus); (iii) pandas' row-preserving operations (sort, groupby, explode, concat).  Python's int() accepts a few spellings "
    "(blanks, '+', '_') that the model's parser rejects; the loader never produces them.")
TOL = 1e-9
SITE_TABLE = "process_trace.get_clone_table"


# --------------------------------------------------------------------------- small tools
def parse_newick(s):
    """'((1,(3)2)0)root;' -> (label, [children]) ; raises ValueError on anything else."""
    s = s.strip()
    if not s.endswith(";"):
        raise ValueError("no terminating ';'")
    s = s[:-1]
    pos = 0

    def node():
        nonlocal pos
        kids = []
        if pos < len(s) and s[pos] == "(":
            pos += 1
            kids.append(node())
            while pos < len(s) and s[pos] == ",":
                pos += 1
                kids.append(node())
            if pos >= len(s) or s[pos] != ")":
                raise ValueError("missing ')'")
            pos += 1
        st = pos
        while pos < len(s) and s[pos] not in "(),;":
            pos += 1
        label = s[st:pos]
        if not label:
            raise ValueError("empty label")
        return (label, kids)

    t = node()
    if pos != len(s):
        raise ValueError("trailing characters")
    return t


def canon_nwk(t):
    return (t[0], sorted(canon_nwk(k) for k in t[1]))


def nwk_parent_map(t):
    out = {}

    def go(n, par):
        if n[0] in out:
            raise ValueError(f"label {n[0]} twice")
        out[n[0]] = par
        for k in n[1]:
            go(k, n[0])

    go(t, None)
    return out


def lf_of_tree(tree):
    """real Tree -> labelled forest [[id, dps, kids], ...] and outliers"""
    g = tree._graph
    root = tree._node_indices[tree.root_node_name]

    def go(idx):
        res = []
        for c in g.successor_indices(idx):
            nid = g[c].node_id
            res.append([int(nid), sorted(int(d.idx) for d in tree._data.get(nid, [])), go(c)])
        return sorted(res)

    return go(root), sorted(int(d.idx) for d in tree._data.get(tree.outlier_node_name, []))


def lf_size(lf):
    return sum(1 + lf_size(k) for _, _, k in lf)


def lf_parent_map(lf):
    out = {"root": None}

    def go(nodes, par):
        for nid, _, kids in nodes:
            out[str(nid)] = par
            go(kids, str(nid))

    go(lf, "root")
    return out


def lf_labels(lf, outs):
    lab = {}

    def go(nodes):
        for nid, dps, kids in nodes:
            for d in dps:
                lab[d] = nid
            go(kids)

    go(lf)
    for o in outs:
        lab[o] = -1
    return lab


def to_frac(x, G):
    """float k/(G-1) (or a difference of such) -> exact Fraction, None when it is not one"""
    k = x * (G - 1)
    r = round(k)
    if not math.isfinite(k) or abs(k - r) > 1e-7:
        return None
    return Fraction(r, G - 1)


def read_table(text):
    rd = csv.DictReader(io.StringIO(text), delimiter="\t")
    return rd.fieldnames, list(rd)


# --------------------------------------------------------------------------- case generation
def _tree_pool(rnd, n, k):
    pool = []
    for _ in range(k):
        r = rnd.random()
        if r < 0.12:
            pool.append(([], list(range(n))))  # all outliers
        elif r < 0.22:
            pool.append(([[list(range(n)), []]], []))  # single clone
        elif r < 0.32:
            pool.append(([[[i], []] for i in range(n)], []))  # n top-level clones
        else:
            pool.append(random_canon_tree(rnd, n, outliers=rnd.random() < 0.5))
    return pool


def _names(rnd, n, clustered):
    """data point names, cluster-file rows (or None)"""
    if not clustered:
        style = rnd.choice(["m", "chr", "num"])
        ks = rnd.sample(range(100), n)
        if style == "m":
            return [f"m{k}" for k in ks], None, None
        if style == "chr":
            return [f"chr{k % 22 + 1}:{1000 + k}:A>T" for k in ks], None, None
        return [str(k) for k in ks], None, None
    cids = rnd.sample(range(0, 3 * n + 2), n)
    if rnd.random() < 0.7:
        cids.sort()  # the loader numbers data points by sorted cluster id
    rows = []
    j = 0
    numeric = rnd.random() < 0.25  # mutation ids that pandas reads back as integers
    for c in cids:
        for _ in range(rnd.randint(1, 3)):
            rows.append([str(1000 + j) if numeric else f"mut{j}", c])
            j += 1
    extra = None
    if rnd.random() < 0.35:  # a cluster of the cluster file that has no data point (all its mutations were filtered)
        extra = max(cids) + 1 + rnd.randint(0, 3)
        for _ in range(rnd.randint(1, 2)):
            rows.append([str(1000 + j) if numeric else f"mut{j}", extra])
            j += 1
    rnd.shuffle(rows)
    return [str(c) for c in cids], rows, extra


def _samples(rnd, S):
    style = rnd.choice(["s", "TN", "num"])
    if style == "s":
        names = [f"s{i}" for i in range(S)]
    elif style == "TN":
        names = rnd.sample(["T1", "T2", "N", "R1", "M3"], S)
    else:
        names = [str(k) for k in rnd.sample(range(1, 30), S)]
    names.sort()
    if rnd.random() < 0.2:
        rnd.shuffle(names)
    return names


def gen_trace_case(rnd, tier, i):
    big = tier == "thorough" and i % 3 == 0
    n = rnd.randint(1, 9 if big else 6)
    S = rnd.randint(1, 3)
    G = rnd.randint(2, 7)
    clustered = i % 2 == 1
    names, crows, extra = _names(rnd, n, clustered)
    vals = [[[fr(x) for x in row] for row in gen_values(rnd, S, G, 3)] for _ in range(n)]
    pool = _tree_pool(rnd, n, rnd.randint(1, 5 if big else 3))
    chains = []
    used = set()
    for _ in range(rnd.randint(1, 4 if big else 3)):
        ch = []
        for _ in range(rnd.randint(1, 8 if big else 5)):
            f, o = rnd.choice(pool)
            lp = round(rnd.uniform(-40, -5), 3)
            while lp in used and rnd.random() < 0.8:  # mostly distinct, a few ties
                lp = round(rnd.uniform(-40, -5), 3)
            used.add(lp)
            ch.append({"forest": f, "outs": o, "lp": lp, "relabel": rnd.random() < 0.8})
        chains.append(ch)
    return {
        "kind": "trace", "G": G, "S": S, "vals": vals, "names": names, "samples": _samples(rnd, S),
        "clusters": crows, "chains": chains,
        "threshold": rnd.choice([0.5, 0.5, 0.6, 0.75, 0.95]),
        "top_trees": rnd.choice([None, None, 1, 2, 5]),
    }


def fixed_mixture_case(rnd, clustered):
    """consensus of these three trees has the clade {0,1,2,3} with no own data point (see DESIGN F9)"""
    from ..common import canon_forest

    n, S, G = rnd.randint(4, 6), rnd.randint(1, 3), rnd.randint(3, 6)
    pm = list(range(n))
    rnd.shuffle(pm)
    a, b, c, e = pm[:4]
    rest = pm[4:]
    extra_root = [[[x], []] for x in rest if rnd.random() < 0.5]
    outs = sorted(x for x in rest if [[x], []] not in extra_root)
    t1 = canon_forest([[[a], [[[b], []], [[c], [[[e], []]]]]]] + extra_root)
    t2 = canon_forest([[[c], [[[e], []], [[a], [[[b], []]]]]]] + extra_root)
    t3 = canon_forest([[[a], [[[b], []]]], [[c], [[[e], []]]]] + extra_root)
    names, crows, _ = _names(rnd, n, clustered)
    vals = [[[fr(x) for x in row] for row in gen_values(rnd, S, G, 3)] for _ in range(n)]
    ch = [{"forest": t, "outs": outs, "lp": -10.0 - k / 100, "relabel": True} for k, t in enumerate([t1, t2, t3])]
    return {"kind": "trace", "G": G, "S": S, "vals": vals, "names": names, "samples": _samples(rnd, S), "clusters": crows,
            "chains": [ch], "threshold": 0.5, "top_trees": None, "expect_empty_clone": True}


def tie_mixture_case(rnd, clustered):
    """an even number of recorded trees split half and half between two incompatible topologies: at the default
    threshold 0.5 no conflicting clade has strict majority support, the consensus command must complete"""
    from ..common import canon_forest

    n, S, G = rnd.randint(3, 5), rnd.randint(1, 2), rnd.randint(3, 5)
    pm = list(range(n))
    rnd.shuffle(pm)
    a, b, c = pm[:3]
    rest = [[[x], []] for x in pm[3:]]
    t1 = canon_forest([[[a, b], [[[c], []]]]] + rest)   # clades {a,b,c}, {c}
    t2 = canon_forest([[[b, c], [[[a], []]]]] + rest)   # clades {a,b,c}, {a}
    t3 = canon_forest([[[a], [[[b], []]]], [[c], []]] + rest)
    t4 = canon_forest([[[c], [[[b], []]]], [[a], []]] + rest)
    pair = rnd.choice([(t1, t2), (t3, t4)])
    names, crows, _ = _names(rnd, n, clustered)
    vals = [[[fr(x) for x in row] for row in gen_values(rnd, S, G, 3)] for _ in range(n)]
    k = rnd.choice([1, 2])
    ch = [{"forest": t, "outs": [], "lp": -10.0, "relabel": True} for t in list(pair) * k]
    return {"kind": "trace", "G": G, "S": S, "vals": vals, "names": names, "samples": _samples(rnd, S), "clusters": crows,
            "chains": [ch], "threshold": 0.5, "top_trees": None}


def gen_direct_case(rnd, tier, i):
    n = rnd.randint(1, 6)
    S = rnd.randint(1, 3)
    G = rnd.randint(2, 6)
    r = i % 6
    clustered = r in (3, 4) or (i // 6) % 2 == 1
    names, crows, _ = _names(rnd, n, clustered)
    vals = [[[fr(x) for x in row] for row in gen_values(rnd, S, G, 3)] for _ in range(n)]
    f, o = random_canon_tree(rnd, n, outliers=rnd.random() < 0.5)
    case = {"kind": "direct", "G": G, "S": S, "vals": vals, "names": names, "samples": _samples(rnd, S), "clusters": crows,
            "forest": f, "outs": o, "drop": [], "bad": None}
    if r in (0, 1):  # data points that are nowhere in the tree: the fill-in path
        k = rnd.randint(1, n)
        case["drop"] = sorted(rnd.sample(range(n), k))
    elif r == 2:
        case["bad"] = "no-samples"
        case["samples"] = []
    elif r == 3 and clustered:
        case["bad"] = "cluster-name-not-int"
        case["names"][rnd.randrange(n)] = rnd.choice(["A", "1.0", "c3", ""])
    elif r == 4 and clustered:
        case["bad"] = "cluster-unknown"
        case["names"][rnd.randrange(n)] = str(10_000)
    elif r == 5:
        case["bad"] = "short-data"  # `data` list shorter than the largest index in the tree
    return case


def cases(tier, rnd):
    out = []
    for i in range(6 if tier == "quick" else 60):  # first: each costs a few seconds (numba compilation per worker)
        out.append(gen_run_case(rnd, i))
    nt = 260 if tier == "quick" else 8000
    nd = 60 if tier == "quick" else 900
    for i in range(nt):
        out.append(gen_trace_case(rnd, tier, i))
    for k in range(6 if tier == "quick" else 40):
        out.append(fixed_mixture_case(rnd, k % 2 == 1))
    for k in range(4 if tier == "quick" else 40):
        out.append(tie_mixture_case(rnd, k % 2 == 1))
    for i in range(nd):
        out.append(gen_direct_case(rnd, tier, i))
    return out


# --------------------------------------------------------------------------- running the real code
def make_data(case):
    vals = [[[Fraction(x) for x in row] for row in v] for v in case["vals"]]
    return [make_dp(i, v, name=case["names"][i]) for i, v in enumerate(vals)]


def drop_points(forest, outs, drop):
    """remove data points from the tree altogether; clones left empty are kept only if they have children"""
    d = set(drop)

    def go(nodes):
        res = []
        for dps, kids in nodes:
            k2 = go(kids)
            d2 = [x for x in dps if x not in d]
            if d2:
                res.append([d2, k2])
            else:
                res.extend(k2)
        return res

    return go(forest), [o for o in outs if o not in d]


def cluster_file_text(case):
    """PyClone-VI like cluster file: one row per mutation and sample"""
    lines = ["mutation_id\tsample_id\tcluster_id\tcellular_prevalence"]
    samples = case["samples"] or ["s"]
    for m, c in case["clusters"]:
        for s in samples:
            lines.append(f"{m}\t{s}\t{c}\t0.5")
    return "\n".join(lines) + "\n"


def write_trace(case, d):
    data = make_data(case)
    results = {}
    for cn, ch in enumerate(case["chains"]):
        trace = []
        for i, e in enumerate(ch):
            t = build_tree(data, e["forest"], e["outs"])
            if e["relabel"]:
                t.relabel_nodes()
            trace.append({"iter": i, "time": 0.0, "alpha": 1.0, "log_p_one": e["lp"], "tree": t.to_dict()})
        results[cn] = {"data": data, "samples": list(case["samples"]), "trace": trace, "chain_num": cn}
    cf = None
    if case["clusters"] is not None:
        cf = os.path.join(d, "clusters.tsv")
        with open(cf, "w") as fh:
            fh.write(cluster_file_text(case))
    f = os.path.join(d, "trace.pkl.gz")
    pt.create_main_run_output(cf, f, results)
    return f, data


class Capture:
    """records (tree, returned table) of every get_clone_table call made by a command"""

    def __init__(self):
        self.calls = []

    def __enter__(self):
        self.orig = pt.get_clone_table
        orig = self.orig
        calls = self.calls

        def wrapped(data, samples, tree, clusters=None):
            out = orig(data, samples, tree, clusters=clusters)
            calls.append(tree)
            return out

        pt.get_clone_table = wrapped
        return self

    def __exit__(self, *a):
        pt.get_clone_table = self.orig
        return False


def input_mutations(case):
    """(list of input mutation ids as strings, mutation -> cluster id or None)"""
    if case["clusters"] is None:
        return list(case["names"]), None
    cl = {}
    for m, c in case["clusters"]:
        cl[str(m)] = c
    return list(cl), cl


# --------------------------------------------------------------------------- oracle + correspondence on one output
def judge(ctx, case, what, site, table_text, nwk_text, tree, data, expect_key=None, info=None):
    """table_text / nwk_text: what the command wrote; tree: the Tree it tabulated; info: where samples, grid size,
    names and cluster rows come from (the case itself unless the trace was produced by a real run)."""
    info = info or case
    samples = list(info["samples"])
    G = info["G"]
    muts, clus = input_mutations(info)

    def bad(msg, sig, detail=None):
        ctx.oracle_fail(case, f"{what}: {msg}", site, sig, detail)

    # ---- parse
    try:
        cols, rows = read_table(table_text)
        nwk = parse_newick(nwk_text)
        pmap = nwk_parent_map(nwk)
    except Exception as e:
        bad(f"output not parseable: {e}", "unparseable")
        return
    want_cols = ["mutation_id", "clone_id"] + (["cluster_id"] if clus is not None else []) + ["sample_id", "ccf", "clonal_prev"]
    if sorted(cols or []) != sorted(want_cols):
        bad(f"columns {cols}", "columns")
        return
    # ---- (a) every input mutation exactly once per sample
    got = Counter((r["mutation_id"], r["sample_id"]) for r in rows)
    want = Counter((m, s) for m in muts for s in samples)
    if got != want:
        missing = sorted((want - got).elements())[:4]
        extra = sorted((got - want).elements())[:4]
        bad("rows are not mutations x samples, each once", "rows-not-product", {"missing": missing, "extra": extra})
    # ---- the tree the command tabulated
    lf, outs = lf_of_tree(tree)
    labels = lf_labels(lf, outs)
    ccfs, prevs = get_map_node_ccfs_and_clonal_prev_dicts(tree)
    name_to_idx = {str(dp.name): dp.idx for dp in data}
    # ---- Newick is the tree
    if pmap != lf_parent_map(lf):
        bad("Newick tree differs from the tree", "newick-structure", {"newick": nwk_text.strip(), "tree": lf})
    nodes = set(pmap) - {"root"}
    clone_of_cluster = defaultdict(set)
    for r in rows:
        try:
            clone = int(r["clone_id"])
            ccf = float(r["ccf"])
            prev = float(r["clonal_prev"])
        except ValueError:
            bad(f"non-numeric cell in row {r}", "cell")
            continue
        m, s = r["mutation_id"], r["sample_id"]
        # (b) clone is a node of the Newick tree or -1
        if clone != -1 and str(clone) not in nodes:
            bad(f"clone id {clone} of {m} is not a node of the Newick tree", "clone-not-in-tree")
        # (c) cluster column and shared clone
        key = m
        if clus is not None:
            try:
                cid = int(r["cluster_id"])
            except ValueError:
                bad(f"non-integer cluster id in row {r}", "cell")
                continue
            if clus.get(m) != cid:
                bad(f"mutation {m} listed with cluster {cid}, input says {clus.get(m)}", "cluster-id")
            clone_of_cluster[cid].add(clone)
            key = str(cid)
        # (e) consistent with the tree: the clone holding the mutation's data point (outliers / absent: -1)
        idx = name_to_idx.get(key)
        want_clone = labels.get(idx, -1) if idx is not None else -1
        if clone != want_clone:
            bad(f"mutation {m} listed in clone {clone}, the tree has it in {want_clone}", "wrong-clone")
        # (d) ccf / prevalence of that clone and sample
        if clone == -1:
            if ccf != -1 or prev != -1:
                bad(f"outlier {m} has ccf {ccf} / prevalence {prev}", "outlier-values")
        elif s in samples and clone in ccfs:
            j = samples.index(s)
            e1, e2 = float(ccfs[clone][j]), float(prevs[clone][j])
            if not (abs(ccf - e1) <= TOL and abs(prev - e2) <= TOL):
                bad(f"{m}/{s}: ccf {ccf}, prevalence {prev}; clone {clone} has {e1}, {e2}", "ccf-of-clone")
            if not (-TOL <= ccf <= 1 + TOL and -TOL <= prev <= 1 + TOL):
                bad(f"{m}/{s}: ccf {ccf} / prevalence {prev} outside [0,1]", "ccf-range")
    for cid, cs in clone_of_cluster.items():
        if len(cs) > 1:
            bad(f"cluster {cid} spread over clones {sorted(cs)}", "cluster-split")
    # (f) the tabulated tree is the expected one (map with a unique maximum)
    if expect_key is not None:
        from ..common import ckey, forest_clades

        def strip(nodes_):
            return [[d, strip(k)] for _, d, k in nodes_]

        if (forest_clades(strip(lf)), frozenset(outs)) != expect_key:
            bad("tabulated tree is not the trace's maximum", "not-the-map-tree")

    # ---- correspondence with the model
    if getattr(ctx, "no_model", False):
        return
    ccf_in = []
    for c in sorted(ccfs):
        a = [to_frac(float(x), G) for x in ccfs[c]]
        b = [to_frac(float(x), G) for x in prevs[c]]
        if any(x is None for x in a + b):
            ctx.corr_fail(case, f"{what}: ccf of clone {c} is not a multiple of 1/(G-1)", [list(map(float, ccfs[c])), list(map(float, prevs[c]))])
            return
        ccf_in.append([int(c), [fr(x) for x in a], [fr(x) for x in b]])
    req = {"op": "table", "forest": lf, "outs": outs, "names": [str(dp.name) for dp in data], "samples": samples,
           "clusters": None if clus is None else [[str(m), int(c)] for m, c in info["clusters"]], "ccf": ccf_in}
    ans = ctx.ask(req)
    mrows = sorted((r[0], r[3], r[1], r[2], Fraction(r[4]), Fraction(r[5])) for r in ans["rows"])
    try:
        crows = sorted((r["mutation_id"], r["sample_id"], int(r["clone_id"]),
                        int(r["cluster_id"]) if clus is not None else None, float(r["ccf"]), float(r["clonal_prev"])) for r in rows)
    except ValueError as e:
        ctx.corr_fail(case, f"{what}: table cell not numeric", str(e))
        return
    if len(mrows) != len(crows):
        ctx.corr_fail(case, f"{what}: {len(crows)} rows written, model has {len(mrows)}", {"code": crows[:6], "model": [list(map(str, r)) for r in mrows[:6]]})
    else:
        for a, b in zip(mrows, crows):
            if a[:4] != b[:4] or abs(float(a[4]) - b[4]) > TOL or abs(float(a[5]) - b[5]) > TOL:
                ctx.corr_fail(case, f"{what}: row differs", {"code": list(b), "model": [str(x) for x in a]})
                break
    try:
        mn = parse_newick(ans["newick"])
        if canon_nwk(mn) != canon_nwk(nwk):
            ctx.corr_fail(case, f"{what}: Newick differs", {"code": nwk_text.strip(), "model": ans["newick"]})
        if sorted(set(nwk_parent_map(mn)) - {"root"}) != sorted(str(i) for i in ans["ids"]):
            ctx.corr_fail(case, f"{what}: model Newick nodes differ from the model's node ids", ans["newick"])
    except ValueError as e:
        ctx.corr_fail(case, f"{what}: model Newick unparseable", str(e))
    # stats
    ctx.stat("outputs_checked")
    if not lf:
        ctx.stat("tree_all_outliers")
    elif lf_size(lf) == 1:
        ctx.stat("tree_single_clone")
    if len(lf) > 1:
        ctx.stat("tree_several_top_level")
    if outs and lf:
        ctx.stat("tree_some_outliers")

    def has_empty(nodes_):
        return any((not d) or has_empty(k) for _, d, k in nodes_)

    if has_empty(lf):
        ctx.stat("tree_with_empty_clone")


def expected_map_key(case):
    """(clades, outliers) of the unique maximum-log_p_one entry, or None on ties"""
    from ..common import ckey

    best, cnt, ent = -math.inf, 0, None
    for ch in case["chains"]:
        for e in ch:
            if e["lp"] > best:
                best, cnt, ent = e["lp"], 1, e
            elif e["lp"] == best:
                cnt += 1
    return ckey(ent["forest"], ent["outs"]) if cnt == 1 else None


def run_command(ctx, case, what, site, fn):
    """runs one command under capture; returns the captured trees or None when it raised"""
    try:
        with Capture() as cap, contextlib.redirect_stdout(io.StringIO()):
            fn()
    except Exception as e:
        ctx.oracle_fail(case, f"{what}: command raised {type(e).__name__}: {e}", site, f"raises-{type(e).__name__}")
        return None
    return cap.calls


def run_all_commands(ctx, case, f, data, d, thr, top, expect_key=None, info=None):
    """the three commands (five variants) on trace file `f`; every written table / Newick is judged"""
    tb, nw = os.path.join(d, "T.tsv"), os.path.join(d, "T.nwk")

    def one(what, site, fn, expect_key=None):
        for p in (tb, nw):
            if os.path.exists(p):
                os.remove(p)
        calls = run_command(ctx, case, what, site, fn)
        if calls is None:
            return
        if len(calls) != 1:
            ctx.corr_fail(case, f"{what}: get_clone_table observed {len(calls)} times (harness cannot see the tabulated tree)", None)
            return
        if not (os.path.exists(tb) and os.path.exists(nw)):
            ctx.oracle_fail(case, f"{what}: output file not written", site, "no-output")
            return
        judge(ctx, case, what, site, open(tb).read(), open(nw).read(), calls[0], data, expect_key, info)
        return calls[0]

    one("map joint-likelihood", "process_trace.write_map_results", lambda: pt.write_map_results(f, tb, nw), expect_key)
    one("map frequency", "process_trace.write_map_results", lambda: pt.write_map_results(f, tb, nw, map_type="frequency"))
    one("consensus counts", "process_trace.write_consensus_results",
        lambda: pt.write_consensus_results(f, tb, nw, consensus_threshold=thr, weight_type="counts"))
    one("consensus joint-likelihood", "process_trace.write_consensus_results",
        lambda: pt.write_consensus_results(f, tb, nw, consensus_threshold=thr, weight_type="joint-likelihood"))
    # topology report + archive
    rep, arc = os.path.join(d, "top.tsv"), os.path.join(d, "top.tar.gz")
    site = "process_trace.write_topology_report"
    calls = run_command(ctx, case, "topology report", site,
                        lambda: pt.write_topology_report(f, rep, topologies_archive=arc, top_trees=(float("inf") if top is None else top)))
    if calls is None:
        return
    with open(rep) as fh:
        _, trows = read_table(fh.read())
    ntop = len(trows)
    want_n = ntop if top is None else min(top, ntop)
    members = {}
    order = []
    with tarfile.open(arc) as a:
        for m in a.getmembers():
            members[m.name] = a.extractfile(m).read().decode()
            if m.name.endswith("_results_table.tsv"):
                order.append(m.name.split("/")[0])
    if len(order) != want_n or len(calls) != len(order):
        ctx.oracle_fail(case, f"topology archive holds {len(order)} tables for {ntop} topologies (top_trees={top})", site, "archive-count")
        return
    by_id = {r["topology_id"]: r for r in trows}
    for tid, tree in zip(order, calls):
        tt = members.get(f"{tid}/{tid}_results_table.tsv")
        nn = members.get(f"{tid}/{tid}.nwk")
        if tt is None or nn is None or tid not in by_id:
            ctx.oracle_fail(case, f"topology archive entry {tid} incomplete", site, "archive-entry")
            continue
        try:
            if canon_nwk(parse_newick(by_id[tid]["topology"])) != canon_nwk(parse_newick(nn)):
                # the report prints the best-scoring member of the topology class, the archive its first member: same
                # topology, possibly other node ids; not part of C12 (table and .nwk inside the archive agree)
                ctx.stat("report_newick_labels_differ_from_archive")
        except ValueError:
            pass
        judge(ctx, case, f"topology archive {tid}", site, tt, nn, tree, data, None, info)


def check_trace(ctx, case):
    d = tempfile.mkdtemp(prefix="c12_")
    try:
        f, data = write_trace(case, d)
        clustered = case["clusters"] is not None
        ctx.stat("clustered" if clustered else "unclustered")
        ctx.stat(f"S_{case['S']}")
        ctx.stat(f"n_{len(case['names'])}")
        before = ctx.stats.get("tree_with_empty_clone", 0)
        run_all_commands(ctx, case, f, data, d, case["threshold"], case["top_trees"], expected_map_key(case))
        if case.get("expect_empty_clone") and ctx.stats.get("tree_with_empty_clone", 0) == before and not ctx.oracle_failures:
            ctx.corr_fail(case, "fixed mixture did not give a consensus clone without own mutations (generator out of date)", None)
        nontrivial = clustered or any(forest_size(e["forest"]) >= 2 or e["outs"] for ch in case["chains"] for e in ch)
        ctx.done(case, nontrivial=nontrivial,
                 sample={"names": case["names"], "samples": case["samples"], "clusters": case["clusters"],
                         "trees": [[(e["forest"], e["outs"]) for e in ch] for ch in case["chains"]][:2]})
    finally:
        shutil.rmtree(d, ignore_errors=True)


def gen_run_case(rnd, i):
    """input files for a real `phyclone run` (tiny settings); the trace it writes is then processed"""
    n = rnd.randint(2, 6)
    S = rnd.randint(1, 3)
    samples = _samples(rnd, S)
    muts = [f"mut{k}" for k in rnd.sample(range(50), n)]
    rows = []
    for m in muts:
        for s in samples:
            rows.append([m, s, rnd.randint(15, 90), rnd.randint(0, 60), rnd.choice([1, 2, 2, 3]), rnd.choice([0, 1]), 2])
    clustered = i % 2 == 1
    crows = None
    if clustered:
        k = rnd.randint(1, n)
        cids = rnd.sample(range(0, 12), k)
        crows = [[m, cids[j % k] if j < k else rnd.choice(cids)] for j, m in enumerate(muts)]
        if rnd.random() < 0.5:
            # a mutation the loader drops (major copy number 0) in a cluster of its own: its cluster has no data point
            m = "dropped1"
            for s in samples:
                rows.append([m, s, 30, 10, 0, 0, 2])
            crows.append([m, max(cids) + 1])
    return {"kind": "run", "rows": rows, "samples": samples, "clusters": crows, "seed": rnd.randrange(1 << 20),
            "outlier_prob": rnd.choice([0, 0.2, 0.5]), "subtree": rnd.choice([0.0, 0.3]), "iters": rnd.randint(5, 25),
            "proposal": rnd.choice(["bootstrap", "semi-adapted", "fully-adapted"]), "grid": rnd.choice([5, 11]),
            "threshold": rnd.choice([0.5, 0.7]), "top_trees": rnd.choice([None, 2])}


def check_run(ctx, case):
    from phyclone.run import run

    d = tempfile.mkdtemp(prefix="c12_")
    try:
        inp = os.path.join(d, "in.tsv")
        with open(inp, "w") as fh:
            fh.write("mutation_id\tsample_id\tref_counts\talt_counts\tmajor_cn\tminor_cn\tnormal_cn\n")
            for r in case["rows"]:
                fh.write("\t".join(str(x) for x in r) + "\n")
        cf = None
        if case["clusters"] is not None:
            cf = os.path.join(d, "clusters.tsv")
            with open(cf, "w") as fh:
                fh.write(cluster_file_text(case))
        f = os.path.join(d, "trace.pkl.gz")
        with contextlib.redirect_stdout(io.StringIO()):
            run(inp, f, burnin=2, cluster_file=cf, num_iters=case["iters"], num_particles=5, grid_size=case["grid"],
                seed=case["seed"], outlier_prob=case["outlier_prob"], print_freq=10_000, proposal=case["proposal"],
                subtree_update_prob=case["subtree"], num_chains=1)
        with gzip.GzipFile(f, "rb") as fh:
            results = pickle.load(fh)
        data = results[0]["data"]
        cl = results[0].get("clusters")
        info = {"samples": list(results[0]["samples"]), "G": int(data[0].grid_size[1]), "names": [str(x.name) for x in data],
                "clusters": None if cl is None else [[str(m), int(c)] for m, c in zip(cl["mutation_id"], cl["cluster_id"])]}
        if (cl is None) != (case["clusters"] is None):
            ctx.corr_fail(case, "trace of a run with/without cluster file has no/a clusters entry", None)
        ctx.stat("run_clustered" if cl is not None else "run_unclustered")
        ctx.stat("run_trace_entries", sum(len(r["trace"]) for r in results.values()))
        run_all_commands(ctx, case, f, data, d, case["threshold"], case["top_trees"], None, info)
        ctx.done(case, nontrivial=True, sample={"samples": case["samples"], "clusters": case["clusters"], "n_rows": len(case["rows"])})
    finally:
        shutil.rmtree(d, ignore_errors=True)


def check_direct(ctx, case):
    """function level: get_clone_table + to_newick_string on one tree; also inputs that must be rejected"""
    data = make_data(case)
    forest, outs = drop_points(case["forest"], case["outs"], case["drop"])
    tree = build_tree(data, forest, outs)
    samples = list(case["samples"])
    clusters = None
    if case["clusters"] is not None:
        clusters = pd.read_csv(io.StringIO(cluster_file_text(case)), sep="\t")[["mutation_id", "cluster_id"]].drop_duplicates()
    bad = case["bad"]
    ctx.stat("direct_" + (bad or ("fill-in" if case["drop"] else "plain")))
    data_arg = data
    if bad == "short-data":
        mx = max(lf_labels(*lf_of_tree(tree)), default=None)
        if mx is None:
            bad = None
        else:
            data_arg = data[:mx]
    err = None
    try:
        table = pt.get_clone_table(data_arg, samples, tree, clusters=clusters)
        text = table.to_csv(index=False, sep="\t")
        nwk = tree.to_newick_string()
    except Exception as e:
        err = e
    lf, o2 = lf_of_tree(tree)
    if bad is None:
        if err is not None:
            ctx.oracle_fail(case, f"get_clone_table raised {type(err).__name__}: {err}", SITE_TABLE, f"raises-{type(err).__name__}")
        else:
            judge(ctx, case, "direct", SITE_TABLE, text, nwk, tree, data)
        ctx.done(case, nontrivial=True, sample={"forest": forest, "outs": outs, "drop": case["drop"]})
        return
    # inputs the code must reject: the model must reject them too (and vice versa)
    ccfs, prevs = get_map_node_ccfs_and_clonal_prev_dicts(tree)
    G = case["G"]
    ccf_in = [[int(c), [fr(to_frac(float(x), G)) for x in ccfs[c]], [fr(to_frac(float(x), G)) for x in prevs[c]]] for c in sorted(ccfs)]
    req = {"op": "table", "forest": lf, "outs": o2, "names": [str(dp.name) for dp in data_arg], "samples": samples,
           "clusters": None if case["clusters"] is None else [[str(m), int(c)] for m, c in case["clusters"]], "ccf": ccf_in}
    from ..leanio import ModelError

    try:
        ctx.ask(req)
        model_rejects = None
    except ModelError as e:
        model_rejects = str(e)
    if (err is None) != (model_rejects is None):
        ctx.corr_fail(case, f"malformed input ({bad}): code {'raised ' + repr(err) if err else 'accepted'}, model {'rejected: ' + model_rejects if model_rejects else 'accepted'}", None)
    if model_rejects is not None and not model_rejects.startswith("reject"):
        ctx.corr_fail(case, f"malformed input ({bad}): model failed for another reason: {model_rejects}", None)
    ctx.stat("rejected_by_both" if err is not None and model_rejects else "accepted_by_both")
    ctx.done(case, nontrivial=False, sample={"bad": bad})


def fresh_process_state():
    """phyclone's likelihood memo tables are keyed by the bytes of the arrays, not their shape; one real run / command has one
    grid shape, the harness runs many shapes in one process (1x4 and 2x2 would collide), so every case starts with empty tables"""
    from phyclone.tree.utils import compute_log_S, _convolve_two_children
    from phyclone.utils.dev import clear_proposal_dist_caches

    for fn in (compute_log_S, _convolve_two_children):
        if hasattr(fn, "cache_clear"):
            fn.cache_clear()
    clear_proposal_dist_caches()


def check(ctx, case):
    fresh_process_state()
    ctx.stat("kind_" + case["kind"])
    if case["kind"] == "trace":
        return check_trace(ctx, case)
    if case["kind"] == "run":
        return check_run(ctx, case)
    return check_direct(ctx, case)


def search(ctx, failed_cases, rnd, deadline):
    """oracle-only: the failing cases first, then fresh ones; model answers are not needed for the oracle"""
    import time

    ctx.no_model = True
    for c in list(failed_cases) + cases("quick", rnd):
        if time.time() > deadline or ctx.oracle_failures:
            break
        if c.get("kind") == "direct" and c.get("bad"):
            continue  # accept/reject agreement needs the model
        try:
            check(ctx, c)
        except Exception:
            ctx.stat("search_errors")


def shrink(failure):
    """drop chains / trace entries while the same oracle signature persists"""
    from ..runner import Ctx

    case = failure["case"]
    if case.get("kind") != "trace":
        return failure
    sig = failure["signature"]

    def fails(c):
        cx = Ctx(ID, "quick", 0, None)
        cx.no_model = True
        try:
            check(cx, c)
        except Exception:
            return None
        return next((f for f in cx.oracle_failures if f["signature"] == sig), None)

    best = failure
    changed = True
    while changed:
        changed = False
        c = {k: v for k, v in best["case"].items() if k not in ("expect_empty_clone", "note")}
        cands = []
        for ci in range(len(c["chains"])):
            if len(c["chains"]) > 1:
                cands.append({**c, "chains": c["chains"][:ci] + c["chains"][ci + 1:]})
            for ei in range(len(c["chains"][ci])):
                if len(c["chains"][ci]) > 1:
                    ch = c["chains"][ci][:ei] + c["chains"][ci][ei + 1:]
                    cands.append({**c, "chains": c["chains"][:ci] + [ch] + c["chains"][ci + 1:]})
        for cand in cands:
            f = fails(cand)
            if f:
                best, changed = f, True
                break
    return best
