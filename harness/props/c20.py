"""C20 — an interrupted or truncated trace file is never read as a valid result.

Exhaustive fault enumeration on the real code: real trace files are produced by the real sampler
and the real writer; **every** prefix length of every file is handed to every summary command; the
outcome must be an exception (and no output) or outputs byte-identical to those from the complete
file, monotone in the prefix length.  The crash itself is simulated as well (failing file object,
OS file-size limit in a forked child, the end of `run`), to tie "crash point of the write" to
"prefix of the file".  The Lean model (`Model/Framing.lean`, theorems in `Props/C20.lean`) is the
framing argument on the side; the correspondence compares its outcome class with the real one at
the same payload progress."""
import base64
import builtins
import csv
import errno
import gzip
import hashlib
import io
import os
import pickle
import random
import shutil
import sys
import tarfile
import tempfile
import time
import zlib
from fractions import Fraction

import numpy as np

from ..common import gen_dataset

import phyclone.run as prun
import phyclone.process_trace.process_trace as pt

ID = "C20"
LEVEL = "fault_enumeration"
EXHAUSTIVE = True
THEOREMS = ["dec_enc", "dec_proper_prefix_fails", "read_prefix_safe_abstract", "read_full_abstract",
            "valSerialiser_lawful", "blockContainer_lawful", "read_prefix_safe", "read_complete_iff",
            "read_monotone", "read_strict_complete_iff", "read_prefix_safe_strict", "strict_implies_lazy"]
BUDGET = {"quick": 100, "thorough": 600}
RULE = ("trace files written by the real `create_main_run_output` from real `run_phyclone_chain` results (2-5 data points, "
        "1-2 samples, grid 3-6, 1-3 chains, 1-4 kept iterations, burn-in 0-2, 2-4 particles, three proposal kernels, outliers "
        "on/off, subtree moves on/off, thinning 1-2, one cluster-file variant; plus one long run, 3 chains x ~140 iterations, whose "
        "pickle spans two 64 KiB frames so that readers consume the stream piecewise; thorough: 100 files, up to 7 data points / 12 "
        "iterations, every fourth with a cluster file, six long runs of up to 300 iterations / three frames); for each file EVERY "
        "prefix length 0..len is written to disk and read by six reader invocations (MAP joint / frequency, topology report with "
        "and without archive, consensus weighted / counts; the long file of the quick tier by the three commands in their default "
        "mode); one evaluation = one (file, prefix length) pair with all its readers, non-trivial when the prefix reaches past the "
        "gzip header; distinct by (file digest, prefix length); consecutive prefix lengths are compared for monotonicity.  Crash "
        "cases: the writer is re-run on the same results with a file object that fails after N bytes (disk full) and in a forked "
        "child under RLIMIT_FSIZE = N with SIGXFSZ ignored (EFBIG) or default (killed), N sampled over the whole file plus its last "
        "10 bytes, and what is left is read back; `phyclone.run.run` end-to-end cases (1-3 chains, in-process pool) check that the "
        "output file is opened once, after the last chain, written append-only, and holds every chain.")
TRUSTED = [
    "zlib / gzip and pickle are outside the model: their lawfulness (a pickle cut before its STOP opcode does not load; the gzip "
    "reader hands out only a prefix of the compressed payload) is the hypothesis set `Lawful` of `read_prefix_safe_abstract`, "
    "checked here only through the exhaustive enumeration on the sampled files",
    "the operating system leaves a prefix of the bytes written so far when a process is killed or the disk fills (append-only "
    "single stream, checked on the writer's calls; page-cache / power-loss reordering is not modelled)",
]
ASSUMPTIONS = [
    "truncation only: corruption of bytes inside the file (bit flips) is not part of the property",
    "a pre-existing output file from an earlier run is outside the property (the writer truncates it on open)",
]
EXPLANATION = ("fault enumeration is exhaustive over prefix lengths for each sampled file, not over all files; the Lean theorems "
               "are about the framing model and rest on the stated lawfulness hypotheses for pickle / gzip")

READERS = ["map", "mapfreq", "topo", "topoarch", "cons", "conscounts"]
PART = 192          # prefix lengths per case
MAXFAIL = 3         # failures reported per case


# ------------------------------------------------------------------------------------ generation
def gen_results(g):
    """Real chains on tiny exact data; deterministic given g except for the wall-clock field."""
    rnd = random.Random(g["seed"])
    op = Fraction(g["op"])
    ds = gen_dataset(rnd, g["n"], S=g["S"], G=g["G"], bits=3, outlier_prob=op)
    samples = [f"s{i}" for i in range(g["S"])]
    rngs = np.random.default_rng(g["seed"]).spawn(g["chains"])
    results = {}
    for c in range(g["chains"]):
        r = prun.run_phyclone_chain(g["burnin"], g["conc"], 1.0, ds.real, float("inf"), g["iters"], g["particles"], 1, 1,
                                    float(op), 1000, g["proposal"], 0.5, rngs[c], samples, g["thin"], c, g["subtree"])
        for e in r["trace"]:
            e["time"] = float(e["iter"])  # wall clock out: file bytes depend on the seed only
        results[c] = r
    return results


def write_clusters(path, g):
    rnd = random.Random(g["seed"] + 1)
    with open(path, "w") as fh:
        fh.write("mutation_id\tcluster_id\tchrom\n")
        for i in range(g["n"]):
            for j in range(rnd.randint(1, 3)):
                fh.write(f"m{i}_{j}\t{i}\t1\n")


def make_file(g):
    """bytes of the trace file the real writer produces, and what the run contained."""
    results = gen_results(g)
    d = tempfile.mkdtemp(prefix="c20gen")
    try:
        cf = None
        if g.get("clusters"):
            cf = os.path.join(d, "clusters.tsv")
            write_clusters(cf, g)
        path = os.path.join(d, "trace.pkl.gz")
        pt.create_main_run_output(cf, path, results)
        data = open(path, "rb").read()
    finally:
        shutil.rmtree(d, ignore_errors=True)
    written = [[int(c), len(r["trace"])] for c, r in sorted(results.items())]
    return data, written


def rand_gen(rnd, tier, i):
    big = tier == "thorough" and i % 3 == 0
    return {
        "seed": rnd.randrange(1 << 30),
        "n": rnd.randint(2, 7 if big else 5),
        "S": rnd.randint(1, 2),
        "G": rnd.randint(3, 6),
        "chains": 3 if (big or i % 3 == 2) else rnd.randint(1, 2),
        "iters": rnd.randint(3, 12) if big else rnd.randint(1, 4),
        "burnin": rnd.randint(0, 2),
        "particles": rnd.randint(2, 4),
        "proposal": rnd.choice(["bootstrap", "semi-adapted", "fully-adapted"]),
        "op": rnd.choice(["0", "0", "1/10"]),
        "subtree": rnd.choice([0.0, 0.0, 0.5]),
        "thin": rnd.choice([1, 1, 2]),
        "conc": rnd.random() < 0.7,
        "clusters": (tier == "thorough" and i % 4 == 1) or (tier == "quick" and i == 1),
    }


def large_gen(rnd, tier, i):
    """a run long enough for the pickle to span several 64 KiB frames (readers then consume the stream piecewise)"""
    return {"seed": rnd.randrange(1 << 30), "n": rnd.randint(5, 6), "S": 1, "G": 4, "chains": 3,
            "iters": rnd.randint(240, 300) if (tier == "thorough" and i > 0) else rnd.randint(135, 150),
            "burnin": 1, "particles": 2, "proposal": "semi-adapted", "op": "0", "subtree": 0.0, "thin": 1, "conc": True,
            "clusters": False, "large": True}


def cases(tier, rnd):
    out = []
    n_files = 8 if tier == "quick" else 100
    n_large = 1 if tier == "quick" else 6
    made, attempts = 0, 0
    null = open(os.devnull, "w")
    old = sys.stdout
    sys.stdout = null
    try:
        while made < n_files and attempts < 3 * n_files:
            g = large_gen(rnd, tier, attempts) if attempts < n_large else rand_gen(rnd, tier, attempts)
            attempts += 1
            try:
                data, written = make_file(g)
            except Exception as e:  # the run itself failing is C19's business; recorded, not hidden
                out.append({"kind": "genfail", "gen": g, "error": f"{type(e).__name__}: {e}"[:300]})
                continue
            made += 1
            b64 = base64.b64encode(data).decode()
            fid = hashlib.sha1(data).hexdigest()[:12]
            L = len(data)
            part = max(PART, -(-(L + 1) // 28))
            readers = ["map", "topo", "cons"] if (g.get("large") and tier == "quick") else READERS
            for lo in range(0, L + 1, part):
                out.append({"kind": "prefix", "fid": fid, "gen": g, "written": written, "file_b64": b64,
                            "lo": lo, "hi": min(L + 1, lo + part), "blk": rnd.randint(1, 16), "readers": readers})
            # crash points: positions modulo the rewritten file's length, plus (added by the worker) its last 12 bytes
            if not (g.get("large") and tier == "quick"):
                out.append({"kind": "crash", "fid": fid, "gen": g, "file_b64": b64, "tail": 10,
                            "points": [rnd.randrange(1 << 20) for _ in range(4 if tier == "quick" else 16)]})
    finally:
        sys.stdout = old
        null.close()
    for i in range(2 if tier == "quick" else 6):
        out.append({"kind": "run_end", "seed": rnd.randrange(1 << 30), "chains": 1 + i % 2 * (1 + i // 2 % 2), "n": rnd.randint(2, 3)})
    out.append({"kind": "malformed"})
    return out


# ------------------------------------------------------------------------------------ running readers
class _Quiet:
    def __enter__(self):
        self.old = sys.stdout
        self.null = open(os.devnull, "w")
        sys.stdout = self.null

    def __exit__(self, *a):
        sys.stdout = self.old
        self.null.close()


class _LoadSpy:
    """Stands in for the `pickle` module inside process_trace: records what `load` returned."""

    def __init__(self):
        self.loaded = []

    def load(self, fh, *a, **k):
        obj = pickle.load(fh, *a, **k)
        self.loaded.append(summary(obj))
        return obj

    def __getattr__(self, name):
        return getattr(pickle, name)


def summary(results):
    """chains and entries of a loaded result object (what a reader 'sees')."""
    try:
        return [[int(c), [[int(e["iter"]), float(e["log_p_one"])] for e in r["trace"]]] for c, r in sorted(results.items())]
    except Exception:
        return "unreadable-structure"


def _read(p):
    return open(p, "rb").read() if os.path.exists(p) else None


def _archive(p):
    if not os.path.exists(p):
        return None
    with tarfile.open(p, "r:gz") as tf:
        return sorted((m.name, tf.extractfile(m).read()) for m in tf.getmembers() if m.isfile())


def run_reader(name, path, d):
    """-> ("ok", outputs, loaded) | ("err", exception type, leftovers).  Output files live in directory d."""
    tsv, nwk, arc = os.path.join(d, "o.tsv"), os.path.join(d, "o.nwk"), os.path.join(d, "o.tar.gz")
    for f in (tsv, nwk, arc):
        if os.path.exists(f):
            os.remove(f)
    spy = _LoadSpy()
    had = hasattr(pt, "pickle")
    if had:
        pt.pickle = spy
    try:
        if name == "map":
            pt.write_map_results(path, tsv, nwk)
        elif name == "mapfreq":
            pt.write_map_results(path, tsv, nwk, map_type="frequency")
        elif name == "topo":
            pt.write_topology_report(path, tsv)
        elif name == "topoarch":
            pt.write_topology_report(path, tsv, topologies_archive=arc, top_trees=2)
        elif name == "cons":
            pt.write_consensus_results(path, tsv, nwk)
        elif name == "conscounts":
            pt.write_consensus_results(path, tsv, nwk, weight_type="counts")
        else:
            raise ValueError(name)
    except Exception as e:
        left = [os.path.basename(f) for f in (tsv, nwk, arc) if os.path.exists(f) and os.path.getsize(f) > 0]
        return ("err", type(e).__name__, left)
    finally:
        if had:
            pt.pickle = pickle
    return ("ok", (_read(tsv), _read(nwk), _archive(arc)), spy.loaded)


def header_len(b):
    """length of the gzip member header (RFC 1952), or None when it is not complete"""
    if len(b) < 10 or b[:3] != b"\x1f\x8b\x08":
        return None
    flg, pos = b[3], 10
    if flg & 4:
        if len(b) < pos + 2:
            return None
        pos += 2 + int.from_bytes(b[pos:pos + 2], "little")
    for bit in (8, 16):
        if flg & bit:
            z = b.find(b"\0", pos)
            if z < 0:
                return None
            pos = z + 1
    if flg & 2:
        pos += 2
    return pos if pos <= len(b) else None


def payload_available(b, H, n):
    """bytes of the pickled payload an inflater can produce from the first n bytes of the file"""
    if n <= H:
        return 0
    try:
        return len(zlib.decompressobj(-15).decompress(b[H:n]))
    except zlib.error:
        return -1


def trace_value(results, cap=6):
    """the loaded result as nested lists of naturals (input of the model's serialiser); at most `cap`
    entries per chain so that the model's table (one row per prefix length of its file) stays small"""
    out = []
    for c, r in sorted(results.items()):
        ents = []
        for e in r["trace"][:cap]:
            nd = e["tree"]["node_data"]
            ents.append([int(e["iter"]), [[int(k) + 1, sorted(int(x.idx) for x in v)] for k, v in sorted(nd.items(), key=lambda kv: int(kv[0]))]])
        out.append([int(c), ents])
    return out


def file_of(case):
    if "file_b64" in case:
        return base64.b64decode(case["file_b64"]), case.get("written")
    with _Quiet():
        return make_file(case["gen"])


# ------------------------------------------------------------------------------------ checks
def check(ctx, case):
    kind = case.get("kind")
    ctx.stat("kind_" + str(kind))
    if kind == "prefix":
        with _Quiet():
            return check_prefix(ctx, case, use_model=ctx.lean is not None)
    if kind == "crash":
        with _Quiet():
            return check_crash(ctx, case)
    if kind == "run_end":
        with _Quiet():
            return check_run_end(ctx, case)
    if kind == "malformed":
        return check_malformed(ctx, case)
    if kind == "genfail":
        ctx.stat("chain_generation_failed")
        ctx.done(case, nontrivial=False, sample={"kind": "genfail", "error": case.get("error")})
        return
    raise ValueError(f"unknown case kind {kind}")


def check_malformed(ctx, case):
    """the driver must reject what it does not understand"""
    from ..leanio import ModelError
    if ctx.lean is None:
        return
    for req in ({"op": "frame", "val": 3, "blk": 4}, {"op": "frame", "val": [["x"]], "blk": 4},
                {"op": "frame", "val": [1, [2]], "blk": 0}, {"op": "frame", "val": [-1], "blk": 2}, {"op": "framed"}):
        try:
            ctx.ask(req)
            ctx.corr_fail(case, "model accepted a malformed request", req)
        except ModelError:
            ctx.stat("malformed_rejected")
    ctx.done(case, nontrivial=False, sample={"kind": "malformed"})


def full_reference(ctx, case, data, d, readers=READERS):
    """outputs of every reader on the complete file; own load of the file; sanity of 'complete'."""
    path = os.path.join(d, "full.pkl.gz")
    open(path, "wb").write(data)
    full = {r: run_reader(r, path, d) for r in readers}
    own = pickle.loads(gzip.decompress(data))
    own_sum = summary(own)
    ok_readers = [r for r in readers if full[r][0] == "ok"]
    for r in readers:
        if full[r][0] != "ok":
            ctx.stat(f"full_file_error_{r}_{full[r][1]}")
    if not ok_readers:
        ctx.corr_fail({k: v for k, v in case.items() if k != "file_b64"}, "no reader succeeds on the complete file: enumeration vacuous",
                      {r: full[r][1] for r in readers})
    # what was written = what the run contained
    written = case.get("written")
    if written is not None and own_sum != "unreadable-structure":
        got = [[c, len(t)] for c, t in own_sum]
        if got != written:
            ctx.oracle_fail(case, "the complete file does not hold the chains / entries of the run",
                            "process_trace.create_main_run_output", "written-content", {"run": written, "file": got})
    # a reader of the complete file sees exactly what was written
    for r in ok_readers:
        for seen in full[r][2]:
            if seen != own_sum:
                ctx.oracle_fail(case, f"{r}: the object loaded from the complete file differs from the file's content",
                                "process_trace." + r, "full-load-differs")
    # topology report counts every entry of every chain once
    if "topo" in full and full["topo"][0] == "ok" and own_sum != "unreadable-structure":
        try:
            rows = list(csv.DictReader(io.StringIO(full["topo"][1][0].decode()), delimiter="\t"))
            total = sum(int(r["count"]) for r in rows)
            chains = {int(r["chain_num"]) for r in rows}
            want = sum(len(t) for _, t in own_sum)
            if total != want or not chains <= {c for c, _ in own_sum}:
                ctx.oracle_fail(case, "topology report of the complete file does not account for every written entry",
                                "process_trace.write_topology_report", "full-count", {"counted": total, "written": want})
        except (KeyError, ValueError):
            ctx.stat("topology_report_columns_changed")
    return full, own, own_sum


def judge(ctx, case, n, r, res, full, own_sum, L, nfail):
    """direct oracle for one (prefix, reader) outcome; returns 'err' | 'ok'"""
    one = {**case, "lo": n, "hi": n + 1}
    if res[0] == "err":
        if res[2] and nfail[0] < MAXFAIL:
            nfail[0] += 1
            ctx.oracle_fail(one, f"{r} failed with {res[1]} on prefix {n}/{L} but left output {res[2]}", "process_trace." + r,
                            "output-despite-error", {"prefix": n, "length": L})
        return "err"
    ref = full[r]
    bad = None
    if ref[0] != "ok":
        bad = ("partial-succeeds-full-fails", f"{r} produced results from prefix {n}/{L} but fails on the complete file")
    elif res[1] != ref[1]:
        bad = ("partial-result", f"{r} produced results from prefix {n}/{L} that differ from those of the complete file")
    elif any(seen != own_sum for seen in res[2]):
        bad = ("partial-load", f"{r} loaded fewer / other chains or entries from prefix {n}/{L} than were written")
    if bad and nfail[0] < MAXFAIL:
        nfail[0] += 1
        ctx.oracle_fail(one, bad[1], "process_trace." + r, bad[0], {"prefix": n, "length": L, "missing_bytes": L - n})
    return "ok"


def check_prefix(ctx, case, use_model=True):
    data, _ = file_of(case)
    L = len(data)
    lo, hi = max(0, case["lo"]), min(L + 1, case["hi"])
    d = tempfile.mkdtemp(prefix="c20")
    nfail = [0]
    try:
        readers = [r for r in case.get("readers", READERS) if r in READERS] or READERS
        full, own, own_sum = full_reference(ctx, case, data, d, readers)
        cut = os.path.join(d, "trace.pkl.gz")
        H = header_len(data)
        payload = gzip.decompress(data)
        P = len(payload)
        model = None
        if use_model:
            try:
                val = trace_value(own)
            except Exception as e:
                val = None
                ctx.corr_fail({k: v for k, v in case.items() if k != "file_b64"},
                              "the complete file is not one pickled {chain: {trace: [...]}} object: the framing model no longer mirrors the writer",
                              f"{type(e).__name__}: {e}"[:200])
            if val is not None:
                model = ctx.ask({"op": "frame", "val": val, "blk": case.get("blk", 4)})
                check_model_table(ctx, case, model, val)
        if lo == 0 and "gen" in case:
            g = case.get("gen", {})
            ctx.stat("files")
            ctx.stat(f"file_chains_{len(case.get('written') or [])}")
            ctx.stat(f"file_bytes_{'<1k' if L < 1024 else '<2k' if L < 2048 else '<4k' if L < 4096 else '>=4k'}")
            ctx.stat(f"file_pickle_frames_{1 + (P - 1) // 65536 if P > 65536 else 1}")
            ctx.stat("file_with_clusters" if g.get("clusters") else "file_without_clusters")
            ctx.stat("file_outliers_" + ("on" if g.get("op", "0") != "0" else "off"))
        prev = None  # classes at n - 1
        ncorr = [0]
        # one prefix past the range so that every consecutive pair is compared by exactly one case
        for n in range(lo, min(hi + 1, L + 1)):
            extra = n >= hi
            open(cut, "wb").write(data[:n])
            classes = {}
            for r in readers:
                res = run_reader(r, cut, d)
                if extra:
                    classes[r] = "ok" if res[0] == "ok" else "err"
                else:
                    classes[r] = judge(ctx, case, n, r, res, full, own_sum, L, nfail)
                    if classes[r] == "err":
                        ctx.stat("exc_" + res[1])
                if prev is not None and prev[r] == "ok" and classes[r] == "err" and nfail[0] < MAXFAIL:
                    nfail[0] += 1
                    ctx.oracle_fail({**case, "lo": n - 1, "hi": n + 1}, f"{r}: outcome not monotone: prefix {n - 1} reads but prefix {n} fails",
                                    "process_trace." + r, "non-monotone", {"prefix": n - 1, "fails_at": n})
            prev = classes
            if extra:
                break
            nok = sum(1 for c in classes.values() if c == "ok")
            ctx.stat("prefix_all_error" if nok == 0 else ("prefix_all_complete" if nok == len(readers) else "prefix_mixed"))
            if 0 < n < L and nok == len(readers):
                ctx.stat(f"complete_with_missing_bytes_{L - n}")
            if model is not None and H is not None and ncorr[0] < MAXFAIL:
                correspond(ctx, case, model, n, L, H, P, payload_available(data, H, n), classes, full, ncorr, readers)
            ctx.done({"fid": case.get("fid"), "n": n}, nontrivial=(H is not None and n > H),
                     sample={"file": case.get("fid"), "length": L, "prefix": n, "chains": case.get("written"),
                             "outcome": {r: classes[r] for r in readers}})
    finally:
        shutil.rmtree(d, ignore_errors=True)


def check_model_table(ctx, case, m, val):
    """the executable model agrees with its own theorems on this value (cheap, every case)"""
    small = {k: v for k, v in case.items() if k != "file_b64"}
    Lm, be = m["len"], m["bodyEnd"]
    if not m["roundtrip"] or m["back"] != val:
        ctx.corr_fail(small, "model serialiser does not round-trip the trace value", None)
    for i, c in enumerate(m["cls"]):
        if c != (1 if i >= be else 0):
            ctx.corr_fail(small, f"model lazy reader: class {c} at prefix {i}, body ends at {be}", None)
            break
    for i, c in enumerate(m["clsStrict"]):
        if c != (1 if i >= Lm else 0):
            ctx.corr_fail(small, f"model strict reader: class {c} at prefix {i}, file length {Lm}", None)
            break
    av = m["avail"]
    if any(av[i] > av[i + 1] for i in range(len(av) - 1)) or av[-1] != m["payload"]:
        ctx.corr_fail(small, "model incremental reader is not monotone / does not reach the payload", None)


def model_prefix_for(m, n, L, H, P, p):
    """prefix length of the model's file at the same progress as real prefix n (p = payload bytes available)"""
    av, hdr, be, Lm, pay = m["avail"], m["hdr"], m["bodyEnd"], m["len"], m["payload"]
    if n < H:
        return min(hdr - 1, n * hdr // H)
    if p >= P:
        return max(be, Lm - (L - n))
    k = max(0, p) * pay // P
    best = hdr
    for i in range(hdr, be):
        if 0 <= av[i] <= k:
            best = i
    return best


def correspond(ctx, case, m, n, L, H, P, p, classes, full, ncorr, readers=READERS):
    small = {k: v for k, v in case.items() if k != "file_b64"}
    small.update({"lo": n, "hi": n + 1})
    i = model_prefix_for(m, n, L, H, P, p)
    mc = m["cls"][i]
    ctx.stat(f"model_class_{mc}")
    for r in readers:
        if full[r][0] != "ok":
            continue
        real = 1 if classes[r] == "ok" else 0
        if p < P:
            if real != 0 or mc != 0:
                ncorr[0] += 1
                ctx.corr_fail(small, f"{r}: payload incomplete ({p}/{P} bytes at prefix {n}/{L}) but real class {real}, model class {mc} at {i}", None)
                return
        else:
            if mc != 1:
                ncorr[0] += 1
                ctx.corr_fail(small, f"model class {mc} at model prefix {i} though the payload is complete", None)
                return
            if real != 1:
                if n == L:
                    ncorr[0] += 1
                    ctx.corr_fail(small, f"{r} fails on the complete file", None)
                    return
                ctx.stat("payload_complete_but_reader_stricter")  # allowed: only the trailer window


# ------------------------------------------------------------------------------------ crash simulation
class FaultyFile:
    """binary file object that takes `limit` bytes and then fails like a full disk"""

    def __init__(self, fh, limit, log):
        self.fh, self.limit, self.log, self.n = fh, limit, log, 0

    def write(self, b):
        b = bytes(b)
        room = self.limit - self.n
        self.log.append(("write", len(b)))
        if len(b) > room:
            if room > 0:
                self.fh.write(b[:room])
                self.n += room
            self.fh.flush()
            self.log.append(("fault", self.n))
            raise OSError(errno.ENOSPC, "No space left on device (simulated)")
        self.n += len(b)
        return self.fh.write(b)

    def seek(self, *a):
        self.log.append(("seek",) + a)
        return self.fh.seek(*a)

    def truncate(self, *a):
        self.log.append(("truncate",) + a)
        return self.fh.truncate(*a)

    def __getattr__(self, name):
        return getattr(self.fh, name)

    def __enter__(self):
        return self

    def __exit__(self, *a):
        self.close()

    def close(self):
        return self.fh.close()


class patched_open:
    """routes opens of `target` for writing through FaultyFile"""

    def __init__(self, target, limit, log):
        self.target, self.limit, self.log = os.path.abspath(target), limit, log

    def __enter__(self):
        self.real = builtins.open
        real, me = self.real, self

        def opener(file, mode="r", *a, **k):
            fh = real(file, mode, *a, **k)
            try:
                same = isinstance(file, (str, bytes, os.PathLike)) and os.path.abspath(os.fsdecode(file)) == me.target
            except Exception:
                same = False
            if same and any(c in mode for c in "wax+"):
                me.log.append(("open", mode))
                if "b" in mode:
                    return FaultyFile(fh, me.limit, me.log)
            return fh

        builtins.open = opener
        io.open = opener
        return self

    def __exit__(self, *a):
        builtins.open = self.real
        io.open = self.real


def same_modulo_mtime(a, ref):
    """a is a prefix of ref, ignoring the 4 timestamp bytes of the gzip header"""
    if len(a) > len(ref):
        return False
    x, y = bytearray(a), bytearray(ref[:len(a)])
    for i in range(4, min(8, len(a))):
        x[i] = y[i] = 0
    return x == y


def check_crash(ctx, case):
    data, _ = file_of(case)
    try:
        results = pickle.loads(gzip.decompress(data))
        summary_ok = summary(results) != "unreadable-structure"
    except Exception:
        summary_ok = False
    if not summary_ok:  # the file is no longer one pickled result object: take the run's results themselves
        ctx.stat("crash_results_regenerated")
        results = gen_results(case["gen"])
    d = tempfile.mkdtemp(prefix="c20cr")
    nfail = [0]
    small = {k: v for k, v in case.items() if k != "file_b64"}
    try:
        ref_path = os.path.join(d, "ref", "trace.pkl.gz")
        os.makedirs(os.path.dirname(ref_path))
        log = []
        with patched_open(ref_path, 1 << 60, log):
            pt.create_main_run_output(None, ref_path, results)
        ref = open(ref_path, "rb").read()
        opens = [e for e in log if e[0] == "open"]
        moved = [e for e in log if e[0] in ("seek", "truncate")]
        if not opens:
            ctx.stat("writer_not_intercepted")
        if len(opens) > 1 or moved:
            ctx.oracle_fail(small, "the writer re-opens, seeks or truncates the output: a crash need not leave a prefix of the complete file",
                            "process_trace.create_main_run_output", "not-append-only", {"opens": opens, "moves": moved[:5]})
        if opens and sum(e[1] for e in log if e[0] == "write") != len(ref):
            ctx.oracle_fail(small, "bytes written do not add up to the file", "process_trace.create_main_run_output", "write-accounting")
        own_sum = summary(results)
        full = {r: run_reader(r, ref_path, d) for r in READERS}
        L = len(ref)
        path = os.path.join(d, "out", "trace.pkl.gz")
        os.makedirs(os.path.dirname(path))
        ctx.stat("rewrite_same_length_as_original" if L == len(data) else "rewrite_other_length")
        points = sorted(set([x % (L + 1) for x in case["points"]] + list(range(max(0, L - case.get("tail", 0)), L + 1))))
        for idx, N in enumerate(points):
            # a failing file object at every point; the two OS-level faults alternate (all three in the thorough tier)
            for mode in (("enospc", "efbig", "kill") if ctx.tier == "thorough" else ("enospc", ("efbig", "kill")[idx % 2])):
                if os.path.exists(path):
                    os.remove(path)
                raised = None
                if mode == "enospc":
                    if not opens:
                        continue
                    log2 = []
                    try:
                        with patched_open(path, N, log2):
                            pt.create_main_run_output(None, path, results)
                    except Exception as e:
                        raised = type(e).__name__
                    if N < L and raised is None:
                        ctx.stat("writer_swallowed_write_error")
                else:
                    pid = os.fork()
                    if pid == 0:
                        try:
                            import resource
                            import signal
                            # Python ignores SIGXFSZ (the write then fails with EFBIG); default action = killed on the spot
                            signal.signal(signal.SIGXFSZ, signal.SIG_DFL if mode == "kill" else signal.SIG_IGN)
                            resource.setrlimit(resource.RLIMIT_FSIZE, (N, N))
                            pt.create_main_run_output(None, path, results)
                        finally:
                            os._exit(0)
                    _, status = os.waitpid(pid, 0)
                    raised = f"status{status}"
                    if N < L and mode == "kill" and not os.WIFSIGNALED(status):
                        ctx.stat("child_survived_file_size_limit")
                left = open(path, "rb").read() if os.path.exists(path) else None
                ctx.stat(f"crash_{mode}_left_" + ("nothing" if left is None else "prefix" if len(left) < L else "complete"))
                if left is not None:
                    if not same_modulo_mtime(left, ref):
                        ctx.oracle_fail({**small, "points": [N]}, f"after a {mode} fault at byte {N} the file is not a prefix of the complete file",
                                        "process_trace.create_main_run_output", "crash-not-prefix", {"left": len(left), "length": L})
                    elif len(left) > N:
                        ctx.corr_fail({**small, "points": [N]}, f"fault injection at {N} left {len(left)} bytes", None)
                    for r in READERS:
                        res = run_reader(r, path, d)
                        judge(ctx, {**small, "points": [N], "mode": mode}, len(left), r, res, full, own_sum, L, nfail)
                ctx.done({"fid": case.get("fid"), "crash": N, "mode": mode}, nontrivial=left is not None and len(left) > 16,
                         sample={"file": case.get("fid"), "crash_at": N, "mode": mode, "left": None if left is None else len(left), "raised": raised})
    finally:
        shutil.rmtree(d, ignore_errors=True)


def check_run_end(ctx, case):
    """`phyclone.run.run` end to end: the trace file is opened once, after the last chain, append-only;
    a crash before that point leaves no file at all."""
    rnd = random.Random(case["seed"])
    d = tempfile.mkdtemp(prefix="c20run")
    try:
        inp = os.path.join(d, "in.tsv")
        with open(inp, "w") as fh:
            fh.write("mutation_id\tsample_id\tref_counts\talt_counts\tmajor_cn\tminor_cn\tnormal_cn\ttumour_content\n")
            for i in range(case["n"]):
                for s in ("A", "B"):
                    fh.write(f"m{i}\t{s}\t{rnd.randint(20, 60)}\t{rnd.randint(5, 40)}\t{rnd.choice([1, 2])}\t1\t2\t1.0\n")
        out = os.path.join(d, "trace.pkl.gz")
        events, log = [], []
        real_chain = prun.run_phyclone_chain

        def chain(*a, **k):
            r = real_chain(*a, **k)
            events.append(("chain_done", os.path.exists(out)))
            return r

        class InProcessPool:
            """stands in for the spawned worker pool: chains run in this process, in submission order"""

            def __init__(self, *a, **k):
                pass

            def __enter__(self):
                return self

            def __exit__(self, *a):
                return False

            def submit(self, fn, *a, **k):
                from concurrent.futures import Future
                f = Future()
                try:
                    f.set_result(chain(*a, **k) if fn is real_chain or fn is chain else fn(*a, **k))
                except Exception as e:
                    f.set_exception(e)
                return f

        real_pool = getattr(prun, "ProcessPoolExecutor", None)
        prun.run_phyclone_chain = chain
        if real_pool is not None:
            prun.ProcessPoolExecutor = InProcessPool
        try:
            with patched_open(out, 1 << 60, log):
                prun.run(inp, out, burnin=1, num_iters=2, num_particles=3, grid_size=5, seed=case["seed"] % 1000,
                         num_chains=case["chains"], print_freq=1000, density="binomial")
        finally:
            prun.run_phyclone_chain = real_chain
            if real_pool is not None:
                prun.ProcessPoolExecutor = real_pool
        if len(events) != case["chains"]:
            ctx.stat("run_chain_not_intercepted")
        opens = [e for e in log if e[0] == "open"]
        moved = [e for e in log if e[0] in ("seek", "truncate")]
        if any(ex for _, ex in events):
            ctx.oracle_fail(case, "the trace file exists before the last chain has finished", "run.run", "early-file")
        if len(opens) > 1 or moved:
            ctx.oracle_fail(case, "run re-opens, seeks or truncates the trace file", "run.run", "not-append-only", {"opens": opens, "moves": moved[:5]})
        if not opens:
            ctx.stat("writer_not_intercepted")
        data = open(out, "rb").read() if os.path.exists(out) else None
        if data is None:
            ctx.corr_fail(case, "run finished without a trace file", None)
        else:
            res = pickle.loads(gzip.decompress(data))
            if sorted(res) != list(range(case["chains"])):
                ctx.oracle_fail(case, "the trace file of a finished run lacks chains", "run.run", "chains-missing", sorted(res))
            # the last 12 crash points of this real run's file, through every reader
            L = len(data)
            sub = {"kind": "prefix", "fid": "run" + hashlib.sha1(data).hexdigest()[:9], "file_b64": base64.b64encode(data).decode(),
                   "written": [[int(c), len(r["trace"])] for c, r in sorted(res.items())], "lo": max(0, L - 12), "hi": L + 1}
            check_prefix(ctx, sub, use_model=False)
        ctx.done(case, nontrivial=True, sample={"kind": "run_end", "events": events, "opens": opens})
    finally:
        shutil.rmtree(d, ignore_errors=True)


# ------------------------------------------------------------------------------------ search
def search(ctx, failed_cases, rnd, deadline):
    """oracle only (no model): the disagreeing prefixes first, then fresh files (ends and a stride)."""
    todo = [c for c in failed_cases if isinstance(c, dict) and c.get("kind") in ("prefix", "crash")]
    with _Quiet():
        for c in todo:
            if time.time() > deadline:
                return
            if c["kind"] == "prefix":
                check_prefix(ctx, c, use_model=False)
            else:
                check_crash(ctx, c)
            if ctx.oracle_failures:
                return
    for c in cases("quick", rnd):
        if time.time() > deadline or ctx.oracle_failures:
            return
        with _Quiet():
            if c["kind"] == "prefix":
                check_prefix(ctx, c, use_model=False)
            elif c["kind"] == "crash":
                check_crash(ctx, c)
