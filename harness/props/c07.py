"""C07 — every tree is a well-formed forest and no move loses or duplicates data.

(1) the edit histories of harness/storehist.py: after every op every live handle is checked by the
    well-formedness oracle (`storehist.wf_problems`), against the tree the edit should give (abstract
    simulator) and against the Lean store model;
(2) sampler invocations on real seeded generators: every tree returned by the burn-in SMC, particle
    Gibbs, subtree, data-point and prune-regraft samplers (built directly and through
    `phyclone.run.setup_kernel` / `setup_samplers`) is well-formed and holds exactly the data points it
    was given; with `deep` every tree that any `Tree` method produces during the call is checked too;
(3) the retained path of `ConditionalSMCSampler` ends in a tree equal to the input."""
import random
from fractions import Fraction

import numpy as np

from .. import storehist as sh
from ..common import DataSet, random_canon_tree, build_tree, forest_clades, KERNELS, make_tree_dist

ID = "C07"
LEVEL = "proof"
THEOREMS = ["wf_init", "wf_createRootNode", "wf_createAdd", "wf_addDataPointToNode", "wf_removeDataPointFromNode", "wf_removeDataPointFromOutliers", "wf_getSubtree", "wf_removeSubtree", "wf_addSubtree", "wf_relabelNodes", "wf_update", "wf_fromDict_toDict", "wf_touch", "wf_step", "wf_reachable", "dense_step", "data_conserved", "subtree_is_clade", "labels_partition", "abs_eq_labels", "subtree_move_conserves", "dp_move_conserves",
            "forest_init", "forest_createRootNode", "forest_getSubtree", "forest_removeSubtree", "forest_addSubtree", "forest_fromDict",
            "forest_step", "forest_reachable", "forest_ops_total", "forest_parent_unique_acyclic", "isForestB_iff", "graph_of_forest", "graph_createRootNode",
            "graph_store_createRootNode", "graph_removeSub", "graph_getSubtree", "graph_addSubtree", "graph_fromDict", "graph_step"]
BUDGET = {"quick": 100, "thorough": 900}
SEARCH_BUDGET = 60
EXPLANATION = (
    "Theorems (Props/C07, on the executable store model): Inv = WF (names and graph indices unique, the two maps are "
    "exactly the payload pairs, _data keyed by clone names or the outlier key and listing each clone's payload, every "
    "data point in one place) + Full + Aligned holds for the empty tree and is preserved by every edit operation under the "
    "side conditions the sampler grammar guarantees (Legal: a clone is created only with fresh data in a densely named "
    "tree; remove_subtree gets a subtree of the same tree; a graft brings no data the tree already holds) - one theorem "
    "per operation, wf_step, wf_reachable for every legal history; data_conserved per operation, subtree_is_clade, "
    "subtree_move_conserves / dp_move_conserves for the composed moves, labels_partition, abs_eq_labels.  Graph shape "
    "(each clone has exactly one parent and is reachable from the virtual root) is structural in the store model and is proved "
    "for the primitive-level digraph model Model/Graph.lean (live indices + edge list; every Tree method as the sequence of "
    "rustworkx calls tree.py makes, the indices rustworkx hands out as parameters): IsForest holds for Tree(grid_size) and is "
    "preserved by create_root_node, get_subtree, remove_subtree, add_subtree, from_dict, copy (forest_* per operation, forest_step, "
    "forest_reachable for every history; hence unique parent and no cycle), isForestB decides it, and for every shape-changing "
    "structural operation of the store model (takeRoots/cons, findSub/reindex, removeSub, append/graftAt, buildSF) the graph-level "
    "operation applied to graphOf f with the indices the structural operation chose yields the live set and edge multiset of "
    "graphOf of the structural result (graph_*); graph_step: every Store.step on well-formed stores is simulated by legal "
    "graph-level operations on the graphs of the stores.  This run: after every op of every history the graph-level op with the real "
    "rustworkx indices injected gives exactly the live set and edge multiset of the real graph and isForestB agrees with the "
    "shape oracle; "
    "model and real Tree agree after every op of every generated history; the direct oracle (one parent, reachable, single "
    "visit, maps mutually inverse and covering the graph, payload name = mapped name, _data keys = clone names, payload "
    "set = _data list, every data point in one place, resulting tree = what the edit should give, untouched handles "
    "bit-identical) holds after every op; every sampler invocation (burn-in SMC, PG, subtree PG, data-point, prune-regraft, "
    "run-loop iteration) returns a well-formed tree on exactly the input data points; the retained path reproduces the input tree."
)
RULE = (
    "histories as for C06; sampler cases: trees from common.random_canon_tree on 1-7 data points (S 1-2, grid 2-5), "
    "proposal in {bootstrap, semi-adapted, fully-adapted}, outliers on/off, samplers built directly or through "
    "run.setup_kernel/setup_samplers, 1-6 particles, thresholds {0, 0.5, 1}, numpy default_rng seeds; `iteration` cases "
    "chain the samplers as the run loop does (subtree or PG, data-point, prune-regraft, relabel_nodes) for 1-3 sweeps.  "
    "Non-trivial: history as for C06; sampler case with >= 2 clones or an outlier in the input tree.")
TRUSTED = [
    "rustworkx primitives (add_node, add_edge, remove_edge, remove_nodes_from, remove_node_retain_edges, subgraph, compose, "
    "extend_from_edge_list, descendants) are modelled one by one in Model/Graph.lean, index allocation left open (parameters); "
    "the harness replays every history on that model with the real indices and compares node and edge sets after every op",
    "numpy.random.Generator (real seeded generators are used for the sampler invocations: sampled, not enumerated)",
]
ASSUMPTIONS = ["sampler invocations are sampled (seeds), not exhaustive: exhaustive transition rows are compared in C01 / C04",
               "graph model: the payload scan of get_subtree is taken to find the image of _node_indices[subtree_root] (names are unique: WF); "
               "the index of the grafted tree's root copy, removed again inside add_subtree, cannot be observed (any unused index is injected); "
               "the renamings injected for get_subtree / add_subtree are reconstructed from payloads and shape (isomorphic subtrees are "
               "interchangeable: every such pairing gives the same edge set)"]
WANT = {"C07"}
SAMPLERS = ["burnin", "pg", "subtree", "dp", "prg", "iteration", "retained"]


def cases(tier, rnd):
    q = tier == "quick"
    out = sh.hist_descs(tier, rnd, 1300 if q else 3000, 450 if q else 1000, long_every=6)
    for i in range(840 if q else 2400):
        out.append({"kind": "sampler", "seed": rnd.randrange(1 << 40), "sampler": SAMPLERS[i % len(SAMPLERS)],
                    "proposal": ["bootstrap", "semi-adapted", "fully-adapted"][(i // len(SAMPLERS)) % 3],
                    "outliers": (i // 21) % 2 == 0, "setup": (i // 42) % 2 == 0, "deep": i % 5 == 0,
                    "n": rnd.randint(1, 7 if i % 3 else 5)})
    return out


def check(ctx, case):
    if case.get("kind", "hist") == "hist":
        sh.check_hist(ctx, case, WANT)
    else:
        check_sampler(ctx, case)


# --------------------------------------------------------------------------- sampler invocations
class Watch:
    """while active, every tree a `Tree` method returns or has mutated is put through the wf oracle"""

    METHODS = ["create_root_node", "add_data_point_to_node", "remove_data_point_from_node", "remove_data_point_from_outliers",
               "add_subtree", "remove_subtree", "get_subtree", "relabel_nodes", "copy", "update"]

    def __init__(self):
        self.problems = []
        self.calls = 0
        self.saved = {}

    def __enter__(self):
        from phyclone.tree import Tree

        for m in self.METHODS:
            orig = getattr(Tree, m)
            self.saved[m] = orig
            setattr(Tree, m, self.wrap(m, orig))
        self.saved["from_dict"] = Tree.__dict__["from_dict"]
        of = Tree.from_dict.__func__
        w = self

        def from_dict(cls, d):
            t = of(cls, d)
            w.look("from_dict", t)
            return t

        Tree.from_dict = classmethod(from_dict)
        return self

    def wrap(self, name, orig):
        w = self

        def f(self_, *a, **k):
            r = orig(self_, *a, **k)
            w.look(name, self_)
            if name in ("get_subtree", "copy"):
                w.look(name + " result", r)
            return r

        return f

    def look(self, name, t):
        self.calls += 1
        if len(self.problems) < 3:
            p = sh.wf_problems(sh.snapshot(t))
            if p:
                self.problems.append((name, p[:3]))

    def __exit__(self, *a):
        from phyclone.tree import Tree

        for m, orig in self.saved.items():
            setattr(Tree, m, orig)


def tree_state(t):
    snap = sh.snapshot(t)
    probs = sh.wf_problems(snap)
    top, gp = sh.forest_of(snap)
    forest = sh.plain_forest(top) if top is not None and not gp else None
    outs = sorted(snap["data"].get(-1, []))
    return probs, forest, outs


def check_sampler(ctx, case):
    from phyclone.mcmc.gibbs_mh import DataPointSampler, PruneRegraphSampler
    from phyclone.mcmc.particle_gibbs import ParticleGibbsTreeSampler, ParticleGibbsSubtreeSampler
    from phyclone.smc.samplers import UnconditionalSMCSampler, ConditionalSMCSampler
    from phyclone.smc.utils import RootPermutationDistribution
    from phyclone.run import setup_kernel, setup_samplers

    sh.clear_caches()
    rnd = random.Random(case["seed"])
    n, outl, kind = case["n"], case["outliers"], case["sampler"]
    S, G = rnd.randint(1, 2), rnd.randint(2, 5)
    op = Fraction(rnd.choice([1, 5, 20]), 100) if outl else Fraction(0)
    vals = [[[Fraction(rnd.randint(1, 8), 8) for _ in range(G)] for _ in range(S)] for _ in range(n)]
    ds = DataSet(vals, op)
    forest, outs = random_canon_tree(rnd, n, outliers=outl)
    tree = build_tree(ds.real, forest, outs)
    alpha = rnd.choice([0.3, 1.0, 2.5])
    N = rnd.choice([1, 1, 2, 2, 3, 4, 5, 6])  # one particle is what `--num-particles 1` runs
    thr = rnd.choice([0.0, 0.5, 1.0])
    rng = np.random.default_rng(case["seed"] % (1 << 32))
    td = make_tree_dist(alpha)
    if case["setup"]:
        kernel = setup_kernel(float(op), case["proposal"], rng, td)
        ss = setup_samplers(kernel, N, float(op), thr, rng, td)
        named = {"burnin": ss.burnin_sampler, "pg": ss.tree_sampler, "subtree": ss.subtree_sampler, "dp": ss.dp_sampler, "prg": ss.prg_sampler}
    else:
        kernel = KERNELS[case["proposal"]](td, rng, outlier_proposal_prob=(0.1 if outl else 0.0), perm_dist=RootPermutationDistribution())
        named = {"burnin": UnconditionalSMCSampler(kernel, num_particles=N, resample_threshold=thr),
                 "pg": ParticleGibbsTreeSampler(kernel, rng, num_particles=N, resample_threshold=thr),
                 "subtree": ParticleGibbsSubtreeSampler(kernel, rng, num_particles=N, resample_threshold=thr),
                 "dp": DataPointSampler(td, rng, outliers=outl), "prg": PruneRegraphSampler(td, rng)}
    ctx.stat("sampler_" + kind)
    ctx.stat("proposal_" + case["proposal"])
    ctx.stat("outliers_" + str(outl))
    ctx.stat("via_setup_" + str(case["setup"]))
    want = sorted(range(n))
    site = {"burnin": "UnconditionalSMCSampler.sample_tree", "pg": "ParticleGibbsTreeSampler.sample_tree",
            "subtree": "ParticleGibbsSubtreeSampler.sample_tree", "dp": "DataPointSampler.sample_tree",
            "prg": "PruneRegraphSampler.sample_tree"}

    def judge(t, where, s):
        probs, f, o = tree_state(t)
        if probs:
            ctx.oracle_fail(case, f"{where}: returned tree not well-formed: {probs[0]}", s, "wf", probs[:4])
            return False
        have = sorted([d for d in sh_all(f)] + o)
        if have != want:
            ctx.oracle_fail(case, f"{where}: returned tree holds data points {have}, given {want}", s, "data-lost-or-duplicated",
                            {"forest": f, "outs": o})
            return False
        if not outl and o:
            ctx.oracle_fail(case, f"{where}: outliers {o} although outlier modelling is off", s, "outlier-when-off", None)
            return False
        return True

    watch = Watch() if case.get("deep") else None
    try:
        if watch:
            watch.__enter__()
        if kind == "retained":
            sigma = RootPermutationDistribution.sample(tree, rng)
            smc = ConditionalSMCSampler(tree, sigma, kernel, num_particles=N, resample_threshold=thr)
            path = smc.constrained_path
            last = path[-1].tree
            probs, f, o = tree_state(last)
            if probs:
                ctx.oracle_fail(case, f"retained path: final tree not well-formed: {probs[0]}", "ConditionalSMCSampler._get_constrained_path", "wf", probs[:4])
            elif (forest_clades(f), sorted(o)) != (forest_clades(forest), sorted(outs)):
                ctx.oracle_fail(case, "retained path does not end in the input tree", "ConditionalSMCSampler._get_constrained_path",
                                "retained-path", {"got": [f, o], "input": [forest, outs]})
            # every prefix holds exactly the first t data points
            for t_i, p in enumerate(path[1:], start=1):
                pr, pf, po = tree_state(p.tree)
                have = sorted(list(sh_all(pf)) + po) if pf is not None else None
                if pr or have != sorted(d.idx for d in sigma[:t_i]):
                    ctx.oracle_fail(case, f"retained path: particle {t_i} holds {have}, expected the first {t_i} points of sigma",
                                    "ConditionalSMCSampler._get_constrained_path", "retained-prefix", pr[:3])
                    break
        elif kind == "iteration":
            t = tree
            for sweep in range(rnd.randint(1, 3)):
                first = "subtree" if rng.random() < 0.5 else "pg"
                for nm in (first, "dp", "prg"):
                    t = named[nm].sample_tree(t)
                    if not judge(t, f"sweep {sweep} {nm}", site[nm]):
                        raise StopIteration
                t.relabel_nodes()
                if not judge(t, f"sweep {sweep} relabel_nodes", "Tree.relabel_nodes"):
                    raise StopIteration
                snap = sh.snapshot(t)
                names = sorted(x["name"] for i, x in snap["nodes"].items() if i != snap["root_idx"])
                if names != list(range(len(names))):
                    ctx.oracle_fail(case, f"names after relabel_nodes are {names}", "Tree.relabel_nodes", "names-not-dense", None)
                    raise StopIteration
        else:
            t = named[kind].sample_tree(tree)
            judge(t, kind, site[kind])
    except StopIteration:
        pass
    except Exception as e:
        ctx.oracle_fail(case, f"{kind} sampler raised {type(e).__name__}: {e}", site.get(kind, kind), "raises", None)
    finally:
        if watch:
            watch.__exit__()
    if watch:
        ctx.stat("deep_tree_method_calls", watch.calls)
        if watch.problems:
            nm, p = watch.problems[0]
            ctx.oracle_fail(case, f"during {kind}: tree after Tree.{nm} not well-formed: {p[0]}", "Tree." + nm, "wf-intermediate", p)
    ctx.done(case, nontrivial=(sh_size(forest) >= 2 or bool(outs)), sample={k: case[k] for k in ("sampler", "proposal", "outliers", "setup", "n")})


def sh_all(forest):
    for d, k in forest or []:
        yield from d
        yield from sh_all(k)


def sh_size(forest):
    return sum(1 + sh_size(k) for _, k in forest)


def shrink(failure):
    if (failure.get("case") or {}).get("kind", "hist") != "hist" and "ops" not in (failure.get("case") or {}):
        return failure
    return sh.shrink_failure(failure, WANT)


def search(ctx, failed_cases, rnd, deadline):
    sh.search_hist(ctx, failed_cases, rnd, deadline, WANT)
