"""C13 — the concentration update is an exact Gibbs step for the CRP concentration.

Three kinds of cases:
* `params` / `forced`: one call of the real `GammaPriorConcentrationSampler.sample` with the three
  `scipy.stats` objects of `phyclone.mcmc.concentration` replaced by recording proxies (module
  attributes patched from the harness, no repo edit).  `params` lets scipy draw, `forced` prescribes
  the Beta and Bernoulli outcomes (every value of the auxiliary variable, both mixture components).
* `update`: `phyclone.run.update_concentration_value` on a random tree with outliers.
* `chain`: a short real `run_phyclone_chain` with the concentration update on (or off).
* `invariance`: end-to-end statistical oracle — exact draws from p(alpha | K, n), one real update each, KS test.
"""
import contextlib
import io
import math
from fractions import Fraction

import numpy as np
import scipy.stats
from scipy.special import gammainc, gammaln

from ..common import DataSet, gen_dataset, random_canon_tree, build_tree, extract, forest_size, fr

import phyclone.mcmc.concentration as pconc
import phyclone.run as prun
from phyclone.tree import Tree, FSCRPDistribution, TreeJointDistribution

ID = "C13"
LEVEL = "other"
THEOREMS = ["conc_params", "conc_params_zero", "mixture_density_identity", "eta_conditional", "alpha_conditional", "eta_marginal",
            "kn_from_tree", "value_in_force", "value_in_force_off", "conc_gibbs_partial",
            "eta_marginal_lintegral", "eta_conditional_density", "alpha_conditional_density",
            "conc_gibbs", "conc_gibbs_measure", "conc_gibbs_set", "mixtureMeasure_prob", "posterior_finite_pos"]
BUDGET = {"quick": 60, "thorough": 420}
EXPLANATION = (
    "Proof complete for the uncensored update; the level is `other` only because of the known finding F12 (the 1e-10 floor).  Proved in Lean (kernel-checked, over the reals with Mathlib's gammaPDFReal / betaPDFReal): the model's "
    "draw parameters are those of the property text (Beta(alpha+1, n); odds pi/(1-pi) = (a+K-1)/(n(b - log eta)); Gamma shapes "
    "a+K / a+K-1, rate b - log eta); the two-component mixture density equals C x^(a+K-2) (x+n) exp(-x(b - log eta)) with C free "
    "of x; the joint prior(alpha) alpha^(K-1) (alpha+n) eta^alpha (1-eta)^(n-1) is, in eta, a multiple of the Beta(alpha+1, n) "
    "density and, in alpha, a multiple of that mixture density; its eta-integral is Gamma(n) prior(alpha) alpha^K "
    "Gamma(alpha)/Gamma(alpha+n) (the conditional posterior of the concentration given K, n); K and n are the number of clones "
    "and of non-outlier data points; the value assigned by the run loop is the one every later density evaluation reads; and "
    "(conc_gibbs, from a general two-stage Gibbs theorem over s-finite measures proved with Tonelli) the kernel 'eta ~ "
    "Beta(alpha+1, n), then alpha' ~ mixture(eta)' leaves the measure with density target(a,b,K,n) on (0,inf) invariant.  NOT "
    "covered by a theorem: that scipy samples from the distribution whose parameters it is handed.  All exactness statements are for the UNCENSORED Gamma draw: the code floors "
    "the draw at 1e-10, which is a known finding (F12) — with the run command's prior a=b=0.01 and one clone about 80% of the "
    "conditional mass lies below the floor.  The tie to the code is the recorded-parameter correspondence of this run.")
RULE = ("params: a, b, old alpha log-uniform in [1e-2, 1e2] (plus the run command's a=b=0.01), 1 <= K <= n <= 60 (thorough also n up to 1e6, a, b in [1e-4, 1e4]) and K = 0; "
        "the parameters recorded at beta.rvs / bernoulli.rvs / gamma.rvs inside the real sample() are compared (relative 1e-12) "
        "with the Lean model evaluated at the recorded eta and Bernoulli outcome and with the formulas of the property text; "
        "forced: eta prescribed in {1e-300 .. 1-1e-16, 1.0} and both Bernoulli outcomes; update: random forests with outliers "
        "(1..9 data points quick / 1..16 thorough), K, n passed by update_concentration_value vs model kn vs direct count on the graph, prior.alpha / "
        "log_alpha / next log_p and log_p_one vs a fresh distribution; chain: run_phyclone_chain on 2..4 points (2..7 thorough), every trace entry "
        "recomputed; invariance: N exact draws from p(alpha | K, n) (numerical inverse CDF), one real update each, Kolmogorov-Smirnov "
        "against the same law (threshold sqrt(N) D > 2.6).  Non-trivial: K >= 1 (mixture branch) for params/forced, a tree with >= 1 clone for update, a chain with "
        "the update on.")
TRUSTED = ["scipy.stats.beta / gamma / bernoulli are trusted to sample from the distribution whose parameters they are handed "
           "(only the parameters are observed); np.log, IEEE-754 arithmetic",
           "the invariance theorem is stated with iterated lower Lebesgue integrals (Mathlib has no measurability of Real.Gamma, so the "
           "kernel is not packaged as a Mathlib `Kernel`)"]
ASSUMPTIONS = ["exactness is stated for the uncensored Gamma draw (the 1e-10 floor is known finding F12)",
               "1 <= K <= n as in the property's quantifier; K = 0 (prior draw, floored at 1e-10 too) is modelled and checked separately; K >= 1 with "
               "n = 0 (only empty clones) is outside the quantifier (the code produces nan there)",
               "the target is p(alpha | K, n) ~ Gamma(a,b)(alpha) alpha^K Gamma(alpha)/Gamma(alpha+n), the alpha-conditional of the "
               "normalised CRP; FSCRPDistribution.log_p omits the alpha-only normaliser Gamma(alpha)/Gamma(alpha+n)"]
SITE = "mcmc/concentration.py:GammaPriorConcentrationSampler.sample"
SITE_UPD = "run.py:update_concentration_value"
SITE_LOOP = "run.py:_run_main_sampler"
REL = 1e-12
FLOOR = 1e-10


# ------------------------------------------------------------------------------- recording proxies
class _Proxy:
    def __init__(self, name, real, log, forced=None):
        self._name, self._real, self._log, self._forced = name, real, log, forced

    def rvs(self, *args, **kw):
        rec = {"dist": self._name, "args": args, "kw": kw, "value": None}
        self._log.append(rec)  # recorded before the draw, so a rejected parameter is still seen
        if self._forced is not None and self._name in self._forced:
            rec["value"] = self._forced[self._name]
        else:
            rec["value"] = self._real.rvs(*args, **kw)
        return rec["value"]

    def __getattr__(self, item):  # anything else the code might use goes to scipy, and is recorded as unexpected
        self._log.append({"dist": self._name, "attr": item})
        return getattr(self._real, item)


@contextlib.contextmanager
def recording(log, forced=None):
    saved = (pconc.beta, pconc.gamma, pconc.bernoulli)
    pconc.beta = _Proxy("beta", scipy.stats.beta, log, forced)
    pconc.gamma = _Proxy("gamma", scipy.stats.gamma, log, forced)
    pconc.bernoulli = _Proxy("bernoulli", scipy.stats.bernoulli, log, forced)
    try:
        yield
    finally:
        pconc.beta, pconc.gamma, pconc.bernoulli = saved


def _param(rec, pos, names, default=None):
    """positional-or-keyword parameter of a recorded rvs call"""
    if len(rec["args"]) > pos:
        return rec["args"][pos]
    for nm in names:
        if nm in rec["kw"]:
            return rec["kw"][nm]
    return default


def close(x, y, rel=REL):
    x, y = float(x), float(y)
    if not (math.isfinite(x) and math.isfinite(y)):
        return False
    return abs(x - y) <= rel * max(abs(x), abs(y), 1e-300)


def fq(s):
    return Fraction(s)


def frf(x):
    """exact value of a float as 'num/den'"""
    return fr(Fraction(float(x)))


# ------------------------------------------------------------------------------- cases
def _logu(rnd, lo, hi):
    return math.exp(rnd.uniform(math.log(lo), math.log(hi)))


def cases(tier, rnd):
    out = []
    # pinned: the prior the run command wires (setup_samplers), single clone -> exhibits known finding F12
    out.append({"kind": "forced", "a": 0.01, "b": 0.01, "alpha": 1.0, "K": 1, "n": 10, "eta": 0.5, "bern": 0, "g": None, "seed": 1})
    out.append({"kind": "params", "a": 0.01, "b": 0.01, "alpha": 1.0, "K": 1, "n": 10, "seed": 12345})
    n_par = 150 if tier == "quick" else 20000
    for i in range(n_par):
        n = rnd.choice([1, 2, 3, 5, 8, 13, 60]) if i % 3 else rnd.randint(1, 60)
        K = rnd.randint(1, n) if i % 11 else 0
        if i % 7 == 0:
            a = b = 0.01
        else:
            a, b = _logu(rnd, 1e-2, 1e2), _logu(rnd, 1e-2, 1e2)
        alpha = _logu(rnd, 1e-2, 1e2) if i % 13 else FLOOR
        if tier == "thorough" and i % 5 == 0:  # far corners
            n = rnd.choice([1000, 10 ** 5, 10 ** 6])
            K = rnd.randint(1, n) if i % 2 else rnd.randint(1, 30)
            a, b, alpha = _logu(rnd, 1e-4, 1e4), _logu(rnd, 1e-4, 1e4), _logu(rnd, 1e-6, 1e4)
        out.append({"kind": "params", "a": a, "b": b, "alpha": alpha, "K": K, "n": n if K else rnd.choice([0, n]), "seed": rnd.randrange(1 << 30)})
    etas = [1e-300, 1e-12, 0.003, 0.25, 0.5, 0.9, 1 - 1e-9, 1 - 2.0 ** -53, 1.0]
    n_forced = 40 if tier == "quick" else 4000
    for i in range(n_forced):
        n = rnd.randint(1, 40)
        K = rnd.randint(1, n)
        eta = etas[i % len(etas)] if i % 2 else rnd.random()
        g = [None, 1e-11, 0.0, FLOOR, 3.5][i % 5]
        out.append({"kind": "forced", "a": _logu(rnd, 1e-2, 1e2), "b": _logu(rnd, 1e-2, 1e2), "alpha": _logu(rnd, 1e-3, 1e3),
                    "K": K, "n": n, "eta": eta, "bern": (i // 2) % 2, "g": g, "seed": rnd.randrange(1 << 30)})
    n_upd = 60 if tier == "quick" else 8000
    for i in range(n_upd):
        n = rnd.randint(1, 9 if tier == "quick" else 16)
        forest, outs = random_canon_tree(rnd, n, outliers=(i % 3 != 0))
        if i % 10 == 9:
            forest, outs = [], list(range(n))  # all data points outliers: K = 0
        ds = gen_dataset(rnd, n, S=rnd.randint(1, 2), G=rnd.randint(2, 5), bits=3, outlier_prob=Fraction(1, rnd.choice([5, 10, 100])) if outs or i % 2 else Fraction(0))
        out.append({"kind": "update", "data": ds.to_json(), "forest": forest, "outs": outs, "alpha": _logu(rnd, 1e-2, 1e2),
                    "a": _logu(rnd, 1e-1, 1e1), "b": _logu(rnd, 1e-1, 1e1), "seed": rnd.randrange(1 << 30), "twice": i % 2 == 0})
    for i in range(1 if tier == "quick" else 60):
        n = rnd.choice([3, 6, 15, 40])
        out.append({"kind": "invariance", "a": rnd.choice([1.0, 2.0, 3.5]), "b": rnd.choice([0.5, 1.0, 3.0]), "K": rnd.randint(1, min(n, 6)), "n": n,
                    "N": 2500 if tier == "quick" else 10000, "seed": rnd.randrange(1 << 30)})
    n_chain = 6 if tier == "quick" else 600
    for i in range(n_chain):
        n = rnd.randint(2, 7 if tier == "thorough" else 4)
        op = Fraction(0) if i % 2 else Fraction(1, 10)
        ds = gen_dataset(rnd, n, S=1, G=rnd.randint(3, 5), bits=3, outlier_prob=op)
        out.append({"kind": "chain", "data": ds.to_json(), "update": i % 5 != 4, "alpha0": rnd.choice([1.0, 0.3, 2.5]),
                    "iters": rnd.randint(4, 8 if tier == "quick" else 25), "thin": rnd.choice([1, 1, 2, 3]), "burnin": rnd.choice([0, 1]),
                    "particles": rnd.randint(2, 4), "proposal": rnd.choice(["bootstrap", "semi-adapted", "fully-adapted"]),
                    "subtree": rnd.choice([0.0, 0.3]), "seed": rnd.randrange(1 << 30)})
    # chains made of subtree moves on 5-7 data points: grafting a rebuilt subtree renames clashing clones past the
    # existing names, so inside a sweep the clone names have gaps (they are only 0..K-1 right after relabel_nodes):
    # K and n must be read off the tree, not off the names
    for i in range(10 if tier == "quick" else 120):
        n = rnd.randint(5, 7)
        op = Fraction(0) if i % 3 == 0 else Fraction(1, 10)
        ds = gen_dataset(rnd, n, S=1, G=rnd.randint(3, 4), bits=3, outlier_prob=op)
        out.append({"kind": "chain", "data": ds.to_json(), "update": True, "alpha0": rnd.choice([1.0, 0.3, 2.5]),
                    "iters": rnd.randint(10, 14), "thin": 1, "burnin": 1, "particles": rnd.randint(2, 4),
                    "proposal": rnd.choice(["bootstrap", "semi-adapted", "fully-adapted"]), "subtree": 1.0, "seed": rnd.randrange(1 << 30)})
    return out


def check(ctx, case):
    kind = case["kind"]
    ctx.stat("kind_" + kind)
    if kind in ("params", "forced"):
        return check_sample(ctx, case)
    if kind == "update":
        return check_update(ctx, case)
    if kind == "invariance":
        return check_invariance(ctx, case)
    return check_chain(ctx, case)


# ------------------------------------------------------------------------------- one sample() call
def judge_sample(ctx, case, a, b, alpha, K, n, log, ret, rng, model=True, tag=""):
    """Correspondence (Lean model) and direct oracle (property text) for one recorded sample() call.
    `log` = the recorded scipy calls of this one call, `ret` = the value sample() returned."""
    bad = [r for r in log if "attr" in r]
    if bad:
        ctx.corr_fail(case, tag + "sample() used a scipy attribute other than rvs", [r["attr"] for r in bad])
        return
    seq = [r["dist"] for r in log]
    for r in log:
        if r["kw"].get("random_state", None) is not rng:
            ctx.corr_fail(case, tag + f"{r['dist']}.rvs not drawn from the sampler's generator", None)
        if _param(r, {"beta": 2, "gamma": 1, "bernoulli": 1}[r["dist"]], ["loc"], 0) != 0:
            ctx.oracle_fail(case, tag + f"{r['dist']}.rvs called with a location shift", SITE, {"kind": "loc"})
    if K == 0:
        ctx.stat("branch_prior")
        if seq != ["gamma"]:
            ctx.oracle_fail(case, tag + f"K = 0: draws {seq}, expected one Gamma(a, b) prior draw", SITE, {"kind": "draw-sequence"})
            return
        g = log[0]
        sh, sc = _param(g, 0, ["a"]), _param(g, 2, ["scale"], 1.0)
        if not (close(sh, a) and close(sc, 1.0 / b)):
            ctx.oracle_fail(case, tag + "K = 0: prior draw is not Gamma(a, rate b)", SITE, {"kind": "prior-params"}, {"shape": sh, "scale": sc})
        if model:
            ans = ctx.ask({"op": "conc", "a": frf(a), "b": frf(b), "alpha": frf(alpha), "K": 0, "n": n, "L": "0/1", "bern": False, "g": frf(g["value"])})
            if ans["branch"] != "prior" or not close(fq(ans["shape"]), sh) or not close(fq(ans["scale"]), sc):
                ctx.corr_fail(case, tag + "K = 0 parameters differ from the model", {"model": ans, "code": [sh, sc]})
            if not close(fq(ans["value"]), ret, 1e-15):
                ctx.corr_fail(case, tag + "K = 0 returned value differs from the model", {"model": ans["value"], "code": ret})
        gd = float(g["value"])
        if not close(ret, gd, 1e-15):
            if gd < FLOOR and gd <= ret <= FLOOR * (1 + 1e-15):
                ctx.stat("floor_hit_prior")
            else:
                ctx.oracle_fail(case, tag + "K = 0: returned value is not the prior draw", SITE, {"kind": "post-processing"}, {"draw": gd, "ret": ret})
        return
    ctx.stat("branch_mix")
    if seq != ["beta", "bernoulli", "gamma"]:
        ctx.oracle_fail(case, tag + f"draws {seq}, expected beta, bernoulli, gamma", SITE, {"kind": "draw-sequence"})
        return
    rb, rber, rg = log
    eta, bern, gdraw = float(rb["value"]), int(rber["value"]), float(rg["value"])
    ba, bb = _param(rb, 0, ["a"]), _param(rb, 1, ["b"])
    scale_b = _param(rb, 3, ["scale"], 1)
    pi = _param(rber, 0, ["p"])
    sh, sc = _param(rg, 0, ["a"]), _param(rg, 2, ["scale"], 1.0)
    ctx.stat(f"bern_{bern}")
    # ---- direct oracle: the formulas of the property text, in floats
    r_true = b - math.log(eta) if eta > 0 else math.inf
    odds_true = (a + K - 1) / (n * r_true)
    if not (close(ba, alpha + 1) and close(bb, n) and scale_b == 1):
        ctx.oracle_fail(case, tag + "auxiliary variable not drawn from Beta(alpha + 1, n)", SITE, {"kind": "beta-params"},
                        {"passed": [ba, bb], "expected": [alpha + 1, n]})
    if not (0 <= pi < 1) or not close(pi / (1 - pi), odds_true, 1e-10):
        ctx.oracle_fail(case, tag + "mixture odds pi/(1-pi) differ from (a+K-1)/(n (b - log eta))", SITE, {"kind": "mixture-weight"},
                        {"pi": pi, "odds": (pi / (1 - pi)) if 0 <= pi < 1 else None, "expected": odds_true})
    if not close(sh, a + K - 1 + bern):
        ctx.oracle_fail(case, tag + "Gamma shape is not a+K-1 plus the Bernoulli outcome", SITE, {"kind": "gamma-shape"},
                        {"shape": sh, "expected": a + K - 1 + bern})
    if not close(sc * r_true, 1.0):
        ctx.oracle_fail(case, tag + "Gamma rate is not b - log eta", SITE, {"kind": "gamma-rate"}, {"scale": sc, "expected": 1.0 / r_true})
    # pointwise: the mixture density with the parameters the code used is proportional to the target kernel
    if math.isfinite(r_true) and 0 <= pi < 1 and sc > 0 and sh - bern > 0:
        s0 = sh - bern
        xs = [1e-6, 1e-3, 0.05, 0.4, 1.0, 2.7, 9.0, 30.0]
        xs = [x * sc * max(s0, 1.0) for x in xs]
        ratios = []
        for x in xs:
            lmix = np.logaddexp(math.log(pi) + scipy.stats.gamma.logpdf(x, s0 + 1, scale=sc) if pi > 0 else -math.inf,
                                math.log1p(-pi) + scipy.stats.gamma.logpdf(x, s0, scale=sc))
            ltar = (a + K - 2) * math.log(x) + math.log(x + n) - x * r_true
            ratios.append(lmix - ltar)
        if max(ratios) - min(ratios) > 1e-8 * max(1.0, max(abs(v) for v in ratios)):
            ctx.oracle_fail(case, tag + "mixture density not proportional to x^(a+K-2) (x+n) exp(-x (b - log eta))", SITE,
                            {"kind": "mixture-density"}, {"log_ratio_spread": max(ratios) - min(ratios)})
        ctx.stat("density_grid_checked")
    # returned value: the draw itself; the 1e-10 floor is the known finding F12, anything else a violation
    if not close(ret, gdraw, 1e-15):
        if gdraw < FLOOR and gdraw <= ret <= FLOOR * (1 + 1e-15):
            ctx.stat("floor_hit")  # a floor at or below 1e-10 (F12; the model pins its exact value)
        else:
            ctx.oracle_fail(case, tag + "returned value is not the Gamma draw", SITE, {"kind": "post-processing"}, {"draw": gdraw, "ret": ret})
    if math.isfinite(r_true) and 0 <= pi < 1 and sh - bern > 0:
        s0 = sh - bern
        mass = pi * gammainc(s0 + 1, FLOOR / sc) + (1 - pi) * gammainc(s0, FLOOR / sc)
        if mass > 1e-6 and floor_active():
            ctx.oracle_fail(case, tag + f"the Gamma-mixture draw is censored at 1e-10: mass {mass:.3g} of the conditional lies below the floor",
                            SITE, {"kind": "floor-1e-10-censors-mixture"}, {"censored_mass": float(mass), "a": a, "b": b, "K": K, "n": n, "eta": eta})
    # ---- correspondence with the Lean model, evaluated at the recorded eta and Bernoulli outcome
    if model and eta > 0:
        L = -math.log(eta)
        ans = ctx.ask({"op": "conc", "a": frf(a), "b": frf(b), "alpha": frf(alpha), "K": K, "n": n, "L": frf(L), "bern": bool(bern), "g": frf(gdraw)})
        if ans["branch"] != "mix":
            ctx.corr_fail(case, tag + "model took the prior branch", ans)
            return
        m = ans["mix"]
        for nm, code in (("betaA", ba), ("betaB", bb), ("pi", pi), ("shape", sh), ("scale", sc)):
            if not close(fq(m[nm]), code):
                ctx.corr_fail(case, tag + f"parameter {nm} differs from the model", {"model": float(fq(m[nm])), "code": float(code)})
        if not close(fq(ans["value"]), ret, 1e-15):
            ctx.corr_fail(case, tag + "returned value differs from the model (floor)", {"model": float(fq(ans["value"])), "code": ret})


_floor_probe = {}


def floor_active():
    """Is the 1e-10 floor present in the code under test?  Probed once by forcing a Gamma draw of 0."""
    if "v" not in _floor_probe:
        log = []
        with recording(log, {"beta": 0.5, "bernoulli": 0, "gamma": 0.0}):
            v = pconc.GammaPriorConcentrationSampler(1.0, 1.0, np.random.default_rng(0)).sample(1.0, 1, 2)
        _floor_probe["v"] = (v == FLOOR)
    return _floor_probe["v"]


def value_range(ctx, case, K, ret):
    """the returned value must be usable as a concentration: finite and > 0 (log alpha is taken next)"""
    ok = isinstance(ret, (float, np.floating)) and math.isfinite(ret) and ret > 0
    if not ok:
        kind = "prior-branch-returns-nonpositive" if K == 0 else "value-range"
        ctx.oracle_fail(case, "sample() returned a non-positive or non-finite value", SITE, {"kind": kind}, {"ret": repr(ret), "K": K})
    return ok


def check_sample(ctx, case):
    a, b, alpha, K, n = case["a"], case["b"], case["alpha"], case["K"], case["n"]
    rng = np.random.default_rng(case["seed"])
    sampler = pconc.GammaPriorConcentrationSampler(a, b, rng)
    forced = None
    if case["kind"] == "forced":
        forced = {"beta": case["eta"], "bernoulli": case["bern"]}
        if case.get("g") is not None:
            forced["gamma"] = case["g"]
    log = []
    ctx.stat("K0" if K == 0 else ("K1" if K == 1 else "K>=2"))
    try:
        with recording(log, forced):
            ret = sampler.sample(alpha, K, n)
    except Exception as e:  # the real code crashed on an input inside the property's quantifier
        ctx.oracle_fail(case, f"sample() raised {type(e).__name__}: {e}"[:300], SITE, {"kind": "exception", "type": type(e).__name__},
                        {"draws_so_far": [(r.get("dist"), [float(x) for x in r.get("args", ())]) for r in log]})
        ctx.done(case, nontrivial=(K >= 1))
        return
    value_range(ctx, case, K, ret)
    judge_sample(ctx, case, a, b, alpha, K, n, log, float(ret), rng)
    ctx.done(case, nontrivial=(K >= 1), sample={k: case[k] for k in ("kind", "a", "b", "alpha", "K", "n")})


# ------------------------------------------------------------------------------- update_concentration_value
class RecSampler:
    """The real sampler, recording what the call site passes."""

    def __init__(self, real):
        self.real, self.calls = real, []

    def sample(self, old_value, num_clusters, num_data_points):
        log = []
        with recording(log):
            v = self.real.sample(old_value, num_clusters, num_data_points)
        self.calls.append({"old": old_value, "K": num_clusters, "n": num_data_points, "ret": v, "log": log})
        return v


def graph_count(tree):
    """(clones, data points in clones), straight from the graph payloads"""
    g = tree._graph
    root_idx = tree._node_indices[tree._ROOT_NODE_NAME]
    sizes = [len(g[i].data_points) for i in g.node_indices() if i != root_idx]
    return len(sizes), sum(sizes)


def check_update(ctx, case):
    ds = DataSet.from_json(case["data"])
    forest, outs = case["forest"], case["outs"]
    tree = build_tree(ds.real, forest, outs)
    alpha0 = case["alpha"]
    tree_dist = TreeJointDistribution(FSCRPDistribution(alpha0))
    prior_obj = tree_dist.prior
    rng = np.random.default_rng(case["seed"])
    rec = RecSampler(pconc.GammaPriorConcentrationSampler(case["a"], case["b"], rng))
    K_true, n_true = forest_size(forest), ds.n - len(outs)
    ctx.stat(f"clones_{K_true}")
    ctx.stat("with_outliers" if outs else "no_outliers")
    ans = ctx.ask({"op": "conc_kn", "forest": forest, "outs": outs, "outkey": bool(outs) or case["seed"] % 2 == 0})
    if (ans["K"], ans["n"]) != (K_true, n_true):
        ctx.corr_fail(case, "model kn differs from the direct count", {"model": ans, "direct": [K_true, n_true]})
    if graph_count(tree) != (K_true, n_true):
        ctx.corr_fail(case, "tree built through the API differs from the requested tree", graph_count(tree))
    lp1_before = tree_dist.log_p_one(tree) if K_true else None
    cur = alpha0
    for rnd_no in range(2 if case.get("twice") else 1):
        before = extract(tree)
        try:
            prun.update_concentration_value(rec, tree, tree_dist)
        except Exception as e:
            ctx.oracle_fail(case, f"update_concentration_value raised {type(e).__name__}: {e}"[:300], SITE_UPD, {"kind": "exception", "type": type(e).__name__})
            break
        if len(rec.calls) != rnd_no + 1:
            ctx.oracle_fail(case, "update_concentration_value did not call sample() exactly once", SITE_UPD, {"kind": "call-count"})
            break
        c = rec.calls[-1]
        if extract(tree) != before:
            ctx.oracle_fail(case, "update_concentration_value changed the tree", SITE_UPD, {"kind": "tree-changed"})
        if (c["K"], c["n"]) != (K_true, n_true):
            ctx.oracle_fail(case, f"update passes K, n = {c['K']}, {c['n']}; the tree has {K_true} clones holding {n_true} non-outlier data points",
                            SITE_UPD, {"kind": "K-n"}, {"passed": [c["K"], c["n"]], "direct": [K_true, n_true], "outliers": len(outs)})
        if (c["K"], c["n"]) != (ans["K"], ans["n"]):
            ctx.corr_fail(case, "K, n passed differ from the model", {"model": ans, "code": [c["K"], c["n"]]})
        if not close(c["old"], cur, 1e-15):
            ctx.oracle_fail(case, "old value passed is not the value in force", SITE_UPD, {"kind": "old-value"}, {"passed": c["old"], "in_force": cur})
        new = float(c["ret"])
        judge_sample(ctx, case, case["a"], case["b"], float(c["old"]), c["K"], c["n"], c["log"], new, rng, tag="update: ")
        if not value_range(ctx, case, c["K"], new):
            break
        # the new value is in force on the shared prior object ...
        if tree_dist.prior is not prior_obj:
            ctx.stat("prior_object_replaced")
        if not close(tree_dist.prior.alpha, new, 1e-15):
            ctx.oracle_fail(case, "tree_dist.prior.alpha is not the sampled value after the update", SITE_UPD, {"kind": "alpha-not-assigned"},
                            {"alpha": tree_dist.prior.alpha, "sampled": new})
        if not abs(float(tree_dist.prior.log_alpha) - math.log(new)) <= 1e-12:
            ctx.oracle_fail(case, "prior.log_alpha is not the log of the sampled value", "tree/distributions.py:FSCRPDistribution.alpha",
                            {"kind": "log-alpha-stale"}, {"log_alpha": float(tree_dist.prior.log_alpha), "expected": math.log(new)})
        # ... and used by the next density evaluations
        if K_true and n_true >= K_true and all(d for d, _ in _nodes(forest)):
            fresh = TreeJointDistribution(FSCRPDistribution(new))
            t2 = build_tree(ds.real, forest, outs)
            for nm in ("log_p_one", "log_p"):
                got, want = getattr(tree_dist, nm)(tree), getattr(fresh, nm)(t2)
                if not abs(got - want) <= 1e-9:
                    ctx.oracle_fail(case, f"{nm} after the update does not use the new concentration", SITE_UPD, {"kind": "density-stale"},
                                    {"got": float(got), "fresh": float(want)})
            both = tree_dist.compute_both_log_p_and_log_p_one(tree)
            if not abs(both[1] - fresh.log_p_one(t2)) <= 1e-9:
                ctx.oracle_fail(case, "compute_both after the update does not use the new concentration", SITE_UPD, {"kind": "density-stale"})
            # property-text recomputation: only the alpha^K factor moves
            d = tree_dist.log_p_one(tree) - lp1_before
            if not abs(d - K_true * (math.log(new) - math.log(alpha0))) <= 1e-8:
                ctx.oracle_fail(case, "log_p_one moved by something else than K (log new - log old)", SITE_UPD, {"kind": "density-delta"},
                                {"delta": float(d), "expected": K_true * (math.log(new) - math.log(alpha0))})
            ctx.stat("density_rechecked")
        cur = new
    ctx.done(case, nontrivial=(K_true >= 1), sample={"forest": forest, "outs": outs, "alpha": alpha0})


def _nodes(forest):
    for d, k in forest:
        yield d, k
        yield from _nodes(k)


# ------------------------------------------------------------------------------- a short real chain
def check_chain(ctx, case):
    ds = DataSet.from_json(case["data"])
    rng = np.random.default_rng(case["seed"])
    calls, upd_calls = [], []
    real_sample = pconc.GammaPriorConcentrationSampler.sample
    real_update = prun.update_concentration_value

    def sample_rec(self, old_value, num_clusters, num_data_points):
        log = []
        with recording(log):
            v = real_sample(self, old_value, num_clusters, num_data_points)
        calls.append({"old": old_value, "K": num_clusters, "n": num_data_points, "ret": v, "log": log, "a": self.a, "b": self.b, "rng": self._rng})
        return v

    wired = []  # everything the chain builds that can evaluate a density: kernel, samplers (spied at construction)
    real_setup_samplers, real_setup_kernel = prun.setup_samplers, prun.setup_kernel

    def setup_samplers_rec(*a, **kw):
        r = real_setup_samplers(*a, **kw)
        wired.extend(list(a) + list(kw.values()) + [r])
        return r

    def setup_kernel_rec(*a, **kw):
        r = real_setup_kernel(*a, **kw)
        wired.append(r)
        return r

    def stale_dists(alpha, log_alpha):
        """every TreeJointDistribution reachable from what the chain wired whose prior is not the value in force"""
        seen, out, todo = set(), [], [(w, "wired") for w in wired]
        while todo:
            o, path = todo.pop()
            if id(o) in seen or isinstance(o, (int, float, str, bytes, bool, type(None), np.ndarray, np.random.Generator, Tree)):
                continue
            seen.add(id(o))
            if isinstance(o, TreeJointDistribution):
                if not (close(o.prior.alpha, alpha, 1e-15) and abs(float(o.prior.log_alpha) - log_alpha) <= 1e-12):
                    out.append({"path": path, "alpha": float(o.prior.alpha), "log_alpha": float(o.prior.log_alpha)})
                continue
            if len(path) > 120:
                continue
            if isinstance(o, (list, tuple, set, frozenset)):
                todo.extend((x, path + "[]") for x in list(o)[:50])
            elif isinstance(o, dict):
                todo.extend((x, path + "{}") for x in list(o.values())[:50])
            else:
                d = getattr(o, "__dict__", None)
                if d:
                    todo.extend((v, path + "." + k) for k, v in d.items())
                for k in getattr(type(o), "__slots__", ()) or ():
                    if hasattr(o, k):
                        todo.append((getattr(o, k), path + "." + k))
        return out

    def update_rec(conc_sampler, tree, tree_dist):
        k0 = len(calls)
        cnt = graph_count(tree)
        real_update(conc_sampler, tree, tree_dist)
        upd_calls.append({"direct": cnt, "calls": len(calls) - k0, "alpha_after": tree_dist.prior.alpha,
                          "log_alpha_after": float(tree_dist.prior.log_alpha), "outs": len(tree.outliers),
                          "stale": stale_dists(tree_dist.prior.alpha, float(tree_dist.prior.log_alpha)), "wired": len(wired)})

    pconc.GammaPriorConcentrationSampler.sample = sample_rec
    prun.update_concentration_value = update_rec
    prun.setup_samplers, prun.setup_kernel = setup_samplers_rec, setup_kernel_rec
    op = float(ds.outlier_prob)
    try:
        with contextlib.redirect_stdout(io.StringIO()):
            res = prun.run_phyclone_chain(case["burnin"], case["update"], case["alpha0"], ds.real, 1e9, case["iters"], case["particles"], 1, 1,
                                          op, 1000, case["proposal"], 0.5, rng, ["s0"], case["thin"], 0, case["subtree"])
    except Exception as e:
        import traceback
        tb = traceback.format_exc()
        in_conc = "concentration.py" in tb or "update_concentration_value" in tb
        if in_conc:
            ctx.oracle_fail(case, f"chain raised {type(e).__name__} inside the concentration update: {e}"[:300], SITE_LOOP, {"kind": "exception", "type": type(e).__name__})
        else:  # a crash elsewhere in the chain is C19's business; recorded, not judged here
            ctx.stat("chain_crashed_elsewhere")
        ctx.done(case, nontrivial=False)
        return
    finally:
        pconc.GammaPriorConcentrationSampler.sample = real_sample
        prun.update_concentration_value = real_update
        prun.setup_samplers, prun.setup_kernel = real_setup_samplers, real_setup_kernel
    trace = res["trace"]
    for j, u in enumerate(upd_calls):
        if u["stale"]:
            st = u["stale"][0]
            ctx.oracle_fail(case, f"after update {j} the value in force is {u['alpha_after']}, but {st['path']} still evaluates densities with alpha = {st['alpha']}",
                            SITE_LOOP, {"kind": "sampler-stale-alpha"}, u["stale"][:3])
            break
    if upd_calls:
        ctx.stat("chain_wired_objects_walked" if upd_calls[0]["wired"] else "chain_wiring_not_seen")
    ctx.stat("chain_update_on" if case["update"] else "chain_update_off")
    want_calls = case["iters"] if case["update"] else 0
    if len(upd_calls) != want_calls or len(calls) != want_calls:
        ctx.oracle_fail(case, f"{len(upd_calls)} concentration updates / {len(calls)} sample() calls in {case['iters']} iterations (update={case['update']})",
                        SITE_LOOP, {"kind": "update-count"})
    cur = case["alpha0"]
    for u, c in zip(upd_calls, calls):
        if (c["K"], c["n"]) != u["direct"]:
            ctx.oracle_fail(case, f"run loop passes K, n = {c['K']}, {c['n']}; the current tree has {u['direct'][0]} clones holding {u['direct'][1]} non-outlier points",
                            SITE_UPD, {"kind": "K-n"}, {"passed": [c["K"], c["n"]], "direct": list(u["direct"]), "outliers": u["outs"]})
        if u["direct"][1] + u["outs"] != ds.n:
            ctx.oracle_fail(case, "data points lost in the chain", SITE_LOOP, {"kind": "data-lost"})
        if not close(c["old"], cur, 1e-15):
            ctx.oracle_fail(case, "old value passed is not the value in force", SITE_UPD, {"kind": "old-value"}, {"passed": c["old"], "in_force": cur})
        if c["rng"] is not rng:
            ctx.corr_fail(case, "the chain's concentration sampler does not use the chain's generator", None)
        judge_sample(ctx, case, c["a"], c["b"], float(c["old"]), c["K"], c["n"], c["log"], float(c["ret"]), c["rng"], tag="chain: ")
        cur = float(c["ret"])
        if not value_range(ctx, case, c["K"], cur):
            ctx.done(case, nontrivial=False)
            return
        if not close(u["alpha_after"], cur, 1e-15) or not abs(u["log_alpha_after"] - math.log(cur)) <= 1e-12:
            ctx.oracle_fail(case, "prior.alpha / log_alpha after the update are not the sampled value and its log", SITE_UPD, {"kind": "alpha-not-assigned"})
    # every trace entry: alpha recorded = the value in force, and log_p_one was computed with it
    draws = [float(c["ret"]) for c in calls] if case["update"] else [0.0] * case["iters"]
    ans = ctx.ask({"op": "conc_loop", "update": bool(case["update"]), "thin": case["thin"], "init": frf(case["alpha0"]), "draws": [frf(d) for d in draws]})
    if [e["iter"] for e in ans] != [e["iter"] for e in trace]:
        ctx.corr_fail(case, "trace iterations differ from the model", {"model": [e["iter"] for e in ans], "code": [e["iter"] for e in trace]})
    else:
        for me, e in zip(ans, trace):
            if not close(fq(me["alpha"]), e["alpha"], 1e-15):
                ctx.corr_fail(case, f"trace alpha at iteration {e['iter']} differs from the model", {"model": float(fq(me["alpha"])), "code": e["alpha"]})
                break
    in_force = case["alpha0"]
    expected = [(0, in_force)]
    for i in range(case["iters"]):
        if case["update"] and i < len(calls):
            in_force = float(calls[i]["ret"])
        if i % case["thin"] == 0:
            expected.append((i, in_force))
    if len(expected) != len(trace):
        ctx.oracle_fail(case, "trace length", SITE_LOOP, {"kind": "trace-length"}, {"got": len(trace), "expected": len(expected)})
    for (i, al), e in zip(expected, trace):
        if e["iter"] != i or not close(e["alpha"], al, 1e-15):
            ctx.oracle_fail(case, f"trace entry {e['iter']}: alpha {e['alpha']} is not the value in force ({al})", SITE_LOOP, {"kind": "trace-alpha"})
            break
        t = Tree.from_dict(e["tree"])
        if t.get_number_of_nodes() == 0 or any(len(v) == 0 for k, v in t.node_data.items() if k != t.outlier_node_name):
            ctx.stat("trace_entry_no_clone")
            if t.get_number_of_nodes() != 0:
                continue
        want = TreeJointDistribution(FSCRPDistribution(al)).log_p_one(t)
        if not abs(e["log_p_one"] - want) <= 1e-9:
            ctx.oracle_fail(case, f"trace entry {e['iter']}: log_p_one was not computed with the recorded alpha", SITE_LOOP, {"kind": "trace-density"},
                            {"recorded": float(e["log_p_one"]), "recomputed": float(want), "alpha": al})
            break
        ctx.stat("trace_entries_recomputed")
    ctx.done(case, nontrivial=bool(case["update"]), sample={k: case[k] for k in ("kind", "update", "iters", "thin", "proposal")})


# ------------------------------------------------------------------------------- invariance, end to end
def target_cdf(a, b, K, n):
    """grid and CDF of p(alpha | K, n) ~ alpha^(a+K-1) exp(-b alpha) Gamma(alpha)/Gamma(alpha+n) (property text: the
    conditional posterior of the concentration given K and n), by trapezoid on a log-spaced grid"""
    x = np.exp(np.linspace(math.log(1e-9), math.log(400.0 / b + 50.0 * (a + K)), 40001))
    lp = (a + K - 1) * np.log(x) - b * x + gammaln(x) - gammaln(x + n)
    w = np.exp(lp - lp.max()) * x  # density in log x
    c = np.concatenate([[0.0], np.cumsum(0.5 * (w[1:] + w[:-1]) * np.diff(np.log(x)))])
    return x, c / c[-1]


def check_invariance(ctx, case):
    """Direct oracle of the property's claim itself: alpha ~ target, one real update, result ~ target
    (Kolmogorov-Smirnov, i.i.d. pairs; deterministic given the case's seed; a >= 1 keeps the floor out of it)."""
    a, b, K, n, N = case["a"], case["b"], case["K"], case["n"], case["N"]
    rng = np.random.default_rng(case["seed"])
    x, cdf = target_cdf(a, b, K, n)
    starts = np.interp(rng.random(N), cdf, x)
    sampler = pconc.GammaPriorConcentrationSampler(a, b, rng)
    try:
        outv = np.sort(np.array([sampler.sample(float(s0), K, n) for s0 in starts]))
    except Exception as e:
        ctx.oracle_fail(case, f"sample() raised {type(e).__name__}: {e}"[:300], SITE, {"kind": "exception", "type": type(e).__name__})
        ctx.done(case, nontrivial=True)
        return
    F = np.interp(outv, x, cdf)
    i = np.arange(1, N + 1)
    D = float(max(np.max(i / N - F), np.max(F - (i - 1) / N)))
    ctx.stat("invariance_ks_checked")
    if D * math.sqrt(N) > 2.6:  # p < 3e-6 under the hypothesis
        ctx.oracle_fail(case, f"one update applied to draws from p(alpha | K, n) does not return draws from it: KS D = {D:.4f}, N = {N}",
                        SITE, {"kind": "invariance-ks"}, {"D": D, "sqrtN_D": D * math.sqrt(N)})
    ctx.done(case, nontrivial=True, sample=case)


# ------------------------------------------------------------------------------- search (oracle only)
def search(ctx, failed_cases, rnd, deadline):
    import time

    for c in list(failed_cases) + cases("quick", rnd):
        if time.time() > deadline:
            break
        if c.get("kind") in ("params", "forced"):
            a, b, alpha, K, n = c["a"], c["b"], c["alpha"], c["K"], c["n"]
            rng = np.random.default_rng(c["seed"])
            forced = None
            if c["kind"] == "forced":
                forced = {"beta": c["eta"], "bernoulli": c["bern"]}
                if c.get("g") is not None:
                    forced["gamma"] = c["g"]
            log = []
            with recording(log, forced):
                ret = pconc.GammaPriorConcentrationSampler(a, b, rng).sample(alpha, K, n)
            ctx.evaluations += 1
            judge_sample(ctx, c, a, b, alpha, K, n, log, float(ret), rng, model=False)
        elif c.get("kind") == "update":
            _search_update(ctx, c)


def _search_update(ctx, case):
    ds = DataSet.from_json(case["data"])
    forest, outs = case["forest"], case["outs"]
    tree = build_tree(ds.real, forest, outs)
    tree_dist = TreeJointDistribution(FSCRPDistribution(case["alpha"]))
    rng = np.random.default_rng(case["seed"])
    rec = RecSampler(pconc.GammaPriorConcentrationSampler(case["a"], case["b"], rng))
    prun.update_concentration_value(rec, tree, tree_dist)
    ctx.evaluations += 1
    K_true, n_true = forest_size(forest), ds.n - len(outs)
    if not rec.calls:
        ctx.oracle_fail(case, "update_concentration_value did not call sample()", SITE_UPD, {"kind": "call-count"})
        return
    c = rec.calls[-1]
    if (c["K"], c["n"]) != (K_true, n_true):
        ctx.oracle_fail(case, f"update passes K, n = {c['K']}, {c['n']}; direct count {K_true}, {n_true}", SITE_UPD, {"kind": "K-n"})
    new = float(c["ret"])
    if not close(tree_dist.prior.alpha, new, 1e-15):
        ctx.oracle_fail(case, "tree_dist.prior.alpha is not the sampled value after the update", SITE_UPD, {"kind": "alpha-not-assigned"})
    if not abs(float(tree_dist.prior.log_alpha) - math.log(new)) <= 1e-12:
        ctx.oracle_fail(case, "prior.log_alpha is not the log of the sampled value", "tree/distributions.py:FSCRPDistribution.alpha", {"kind": "log-alpha-stale"})
