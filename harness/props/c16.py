"""C16 — the consensus tree contains exactly the clades with majority support."""
import gzip
import itertools
import os
import pickle
import random
import tempfile
import time
from fractions import Fraction

import numpy as np

from ..common import (gen_dataset, random_canon_tree, build_tree, extract, forest_clades, forest_from_parents,
                      all_canon_trees, canon_forest, fr)
from ..leanio import ModelError

ID = "C16"
LEVEL = "proof"
THEOREMS = ["majority_family_laminar", "no_inconsistent_error", "parent_is_child", "own_is_clade_minus_subclades",
            "consensus_clades_exact", "uncovered_are_minus1", "consensus_any_order", "run_succeeds"]
EXPLANATION = ("proved on the executable model, for all traces / weights / thresholds >= 1/2 and every iteration order: the majority "
               "family is laminar; find_smallest_superset never reaches its 'Inconsistent set of clades' branch; the parent it "
               "records is exactly the nesting (child) relation of the family; relabel never raises KeyError and leaves at a node "
               "the clade minus all majority clades strictly inside it; whenever the command returns, the clades of the built "
               "forest are exactly the clades with support > threshold (consensus_clades_exact) and the outlier list is exactly "
               "the data indices in no majority clade (uncovered_are_minus1); the command does return on every in-domain trace "
               "over data points 0..n-1 (run_succeeds).  The correspondence ties the model to the code, the direct oracle "
               "decides the same clauses on the real code")
BUDGET = {"quick": 55, "thorough": 420}
SEARCH_BUDGET = 60
RULE = ("mixtures of trees over one small data set (2..7 points quick / ..10 thorough, 1..10 / ..20 trees: copies and one-point "
        "perturbations of 1-2 base trees plus unrelated random trees, outliers in a third of them), counts and weighted mode "
        "(dyadic weights, normalised exactly as write_consensus_results does), thresholds 1/2, 3/5, 3/4, 9/10, 1; all pairs and "
        "sampled (thorough: all) triples of the 26 trees on 3 points; real write_consensus_results on gzip-pickled synthetic "
        "traces with 1-3 chains (table + Newick parsed back); out-of-domain: thresholds < 1/2, clones without data, too few "
        "weights, malformed requests. Weighted cases with a support within 1e-6 of the threshold are counted as trivial and "
        "skipped. Non-trivial: at least two different input trees and at least two majority clades; distinct by input digest.")
TRUSTED = ["networkx (DiGraph, dfs_preorder_nodes, relabel_nodes, to_dict_of_dicts), rustworkx graph mutation inside Tree, pandas / "
           "pickle / gzip in write_consensus_results are exercised by the correspondence, not modelled",
           "iteration order of Python sets is not modelled: the model processes candidates in list order and the theorems hold for "
           "every order"]
ASSUMPTIONS = ["every clone of every traced tree holds at least one data point (the samplers never create empty clones), so no clade "
               "is empty; all trees of a trace are over the same data and use every data point at most once",
               "weighted mode: normalised weights are non-negative and sum to 1; supports not within 1e-6 of the threshold "
               "(float summation in clade_probabilities / exp_normalize is outside the model)",
               "threshold >= 1/2 (below it the code may raise 'Inconsistent set of clades' or KeyError; modelled, not part of the property)"]
THETAS = ["1/2", "3/5", "3/4", "9/10", "1"]
OOD_THETAS = ["1/3", "1/4", "2/5", "0"]
NEAR = Fraction(1, 10**6)


# ------------------------------------------------------------------------------- generation
def _flatten(forest):
    """canonical forest -> (blocks, parent vector)"""
    blocks, par = [], []

    def go(node, p):
        me = len(blocks)
        blocks.append(list(node[0]))
        par.append(p)
        for k in node[1]:
            go(k, me)

    for x in forest:
        go(x, -1)
    return blocks, par


def _rebuild(blocks, par, keep_empty=False):
    blocks = [list(b) for b in blocks]
    par = list(par)
    if not keep_empty:
        while True:
            e = next((i for i, b in enumerate(blocks) if not b), None)
            if e is None:
                break
            for i in range(len(par)):
                if par[i] == e:
                    par[i] = par[e]
            del blocks[e], par[e]
            par = [p - 1 if p > e else p for p in par]
    return forest_from_parents(blocks, par)


def perturb(rnd, forest, outs, n):
    """move one data point to another clone / a new clone / the outliers, or regraft one clone"""
    blocks, par = _flatten(forest)
    outs = list(outs)
    if blocks and rnd.random() < 0.35 and len(blocks) > 1:
        i = rnd.randrange(len(blocks))
        desc = {i}
        changed = True
        while changed:
            changed = False
            for j, p in enumerate(par):
                if p in desc and j not in desc:
                    desc.add(j)
                    changed = True
        par[i] = rnd.choice([-1] + [j for j in range(len(blocks)) if j not in desc])
        return _rebuild(blocks, par), outs
    x = rnd.randrange(n)
    if x in outs:
        outs.remove(x)
    else:
        for b in blocks:
            if x in b:
                b.remove(x)
    r = rnd.random()
    if r < 0.15:
        outs = sorted(outs + [x])
    elif r < 0.45 or not blocks:
        blocks.append([x])
        par.append(rnd.choice([-1] + list(range(len(blocks) - 1))))
    else:
        rnd.choice(blocks).append(x)
    return _rebuild(blocks, par), outs


def gen_mixture(rnd, n, T, outliers):
    bases = [random_canon_tree(rnd, n, outliers=outliers, max_out=max(1, n // 3)) for _ in range(rnd.randint(1, 2))]
    trees = []
    for _ in range(T):
        r = rnd.random()
        f, o = rnd.choice(bases)
        if r < 0.5:
            pass
        elif r < 0.85:
            for _ in range(rnd.randint(1, 2)):
                f, o = perturb(rnd, f, o, n)
        else:
            f, o = random_canon_tree(rnd, n, outliers=outliers, max_out=max(1, n // 3))
        trees.append({"forest": f, "outs": list(o)})
    return trees


def gen_rotations(rnd, n):
    """Three-tree (or six-tree) mixtures in which several majority clades keep no data of their own:
    the data is cut into groups of 2-3 blocks; inside a group the trees disagree on which block is
    the ancestor (a->b, b->a, side by side), so the group's union has support 2/3 and an empty own set."""
    idx = list(range(n))
    rnd.shuffle(idx)
    groups = []
    while len(idx) >= 2:
        k = min(len(idx), rnd.choice([2, 2, 3]))
        groups.append([[idx.pop()] for _ in range(k)])
    rest = idx  # 0 or 1 left-over points
    variants = []
    for v in range(3):
        roots = []
        for g in groups:
            r = (v + rnd.randrange(3)) % 3 if rnd.random() < 0.3 else v
            if r == 0:
                node = [g[0], [[b, []] for b in g[1:]]]
                roots.append(node)
            elif r == 1:
                node = [g[1], [[b, []] for b in g[:1] + g[2:]]]
                roots.append(node)
            else:
                roots.extend([b, []] for b in g)
        top = rnd.random()
        outs = []
        if rest and top < 0.4:
            roots = [[list(rest), roots]]
        elif rest and top < 0.7:
            roots.append([list(rest), []])
        elif rest:
            outs = list(rest)
        variants.append({"forest": canon_forest(roots), "outs": outs})
    trees = variants * rnd.choice([1, 1, 2])
    rnd.shuffle(trees)
    return trees


def gen_weights(rnd, T):
    bits = rnd.choice([2, 3, 5])
    return [fr(Fraction(rnd.randint(1, 1 << bits), 1 << bits)) for _ in range(T)]


def add_empty_clone(rnd, forest):
    blocks, par = _flatten(forest)
    if blocks and rnd.random() < 0.5:
        # empty clone inserted between a clone and its parent
        i = rnd.randrange(len(blocks))
        blocks.append([])
        par.append(par[i])
        par[i] = len(blocks) - 1
    else:
        blocks.append([])
        par.append(rnd.choice([-1] + list(range(len(blocks) - 1))))
    return _rebuild(blocks, par, keep_empty=True)


_SMALL = None


def small_trees():
    global _SMALL
    if _SMALL is None:
        _SMALL = sorted(([f, o] for f, o in all_canon_trees(3, outliers=False)), key=repr)
    return _SMALL


def cases(tier, rnd):
    out = []
    quick = tier == "quick"
    n_mix = 420 if quick else 40000
    for i in range(n_mix):
        n = rnd.randint(2, 7 if quick else 10)
        T = rnd.choice([1, 2, 2, 3, 4, 4, 5, 6, 8, 10] + ([] if quick else [12, 15, 20]))
        weighted = i % 2 == 1
        c = {"kind": "mix", "n": n, "dseed": rnd.randrange(1 << 30), "trees": gen_mixture(rnd, n, T, outliers=(i % 3 == 0)),
             "mode": "weighted" if weighted else "counts", "theta": THETAS[(i // 2) % len(THETAS)]}
        if weighted:
            c["weights"] = gen_weights(rnd, T)
        out.append(c)
    for i in range(60 if quick else 4000):
        n = rnd.randint(4, 7 if quick else 9)
        trees = gen_rotations(rnd, n)
        c = {"kind": "mix", "n": n, "dseed": rnd.randrange(1 << 30), "trees": trees, "mode": "counts",
             "theta": rnd.choice(["1/2", "1/2", "3/5"])}
        if i % 3 == 2:
            c["mode"] = "weighted"
            c["weights"] = [fr(Fraction(rnd.choice([3, 4, 5]), 8)) for _ in trees]
        out.append(c)
    st = small_trees()
    pairs = list(itertools.combinations_with_replacement(range(len(st)), 2))
    triples = list(itertools.combinations_with_replacement(range(len(st)), 3))
    if quick:
        pairs = rnd.sample(pairs, 150)
        triples = rnd.sample(triples, 250)
    for combo in pairs + triples:
        for th in (["1/2"] if quick else ["1/2", "3/5"]):
            out.append({"kind": "mix", "n": 3, "dseed": 7, "mode": "counts", "theta": th,
                        "trees": [{"forest": st[i][0], "outs": st[i][1]} for i in combo]})
    for i in range(24 if quick else 2000):
        n = rnd.randint(2, 6)
        chains = []
        for _ in range(rnd.randint(1, 3)):
            T = rnd.randint(1, 5)
            chains.append([dict(t, p=fr(Fraction(rnd.randint(1, 16), 16))) for t in gen_mixture(rnd, n, T, outliers=(i % 3 == 0))])
        # the same topology visited by several chains with different scores and counts (a per-chain summary would
        # weigh it once per chain)
        if len(chains) > 1 and i % 4 != 3:
            for ch in chains[1:]:
                for _ in range(rnd.randint(1, 3)):
                    t = rnd.choice(chains[0])
                    ch.insert(rnd.randrange(len(ch) + 1), dict(t, p=fr(Fraction(rnd.randint(1, 16), 16))))
        out.append({"kind": "trace", "n": n, "dseed": rnd.randrange(1 << 30), "chains": chains,
                    "wtype": "counts" if i % 2 == 0 else "joint-likelihood", "theta": THETAS[(i // 2) % len(THETAS)]})
    for i in range(40 if quick else 3000):
        n = rnd.randint(2, 6)
        T = rnd.choice([2, 3, 4, 5, 6])
        trees = gen_mixture(rnd, n, T, outliers=(i % 4 == 0))
        c = {"kind": "ood", "n": n, "dseed": rnd.randrange(1 << 30), "trees": trees, "mode": "counts",
             "theta": rnd.choice(OOD_THETAS)}
        if i % 3 == 1:  # clones without data, threshold inside the domain
            c["theta"] = rnd.choice(THETAS[:3])
            k = rnd.randrange(T)
            same = rnd.random() < 0.6
            for j, t in enumerate(trees):
                if j == k or same:
                    t["forest"] = add_empty_clone(rnd, t["forest"])
        if i % 3 == 2:
            c["mode"] = "weighted"
            c["weights"] = gen_weights(rnd, T)
        out.append(c)
    for i in range(4 if quick else 20):
        n = rnd.randint(2, 5)
        T = rnd.randint(2, 5)
        out.append({"kind": "short_weights", "n": n, "dseed": rnd.randrange(1 << 30), "trees": gen_mixture(rnd, n, T, False),
                    "mode": "weighted", "weights": gen_weights(rnd, T - 1), "theta": "1/2"})
    out.append({"kind": "badreq", "req": {"op": "cons", "n": 2, "trees": [[[[0, 1], []]]]}})
    out.append({"kind": "badreq", "req": {"op": "cons", "n": 2, "theta": "1/0", "trees": [[[[0, 1], []]]]}})
    out.append({"kind": "badreq", "req": {"op": "cons", "n": 2, "theta": "1/2", "trees": [[[[0, 1]]]]}})
    out.append({"kind": "badreq", "req": {"op": "cons_trace", "n": 2, "theta": "1/2", "trace": []}})
    return out


# ------------------------------------------------------------------------------- helpers
def dataset(case):
    return gen_dataset(random.Random(case["dseed"]), case["n"], S=1, G=3, bits=3)


def norm_weights(case):
    """exact normalised weights of a weighted `mix` case"""
    raw = [Fraction(w) for w in case["weights"]]
    z = sum(raw)
    return [w / z for w in raw]


def nodes_by_clade(forest):
    """sorted list of (clade, own data) over the clones of a canonical forest"""
    out = []

    def go(node):
        s = set(node[0])
        for k in node[1]:
            s |= go(k)
        out.append((sorted(s), sorted(node[0])))
        return s

    for x in forest:
        go(x)
    return sorted(out)


def exact_supports(clade_sets, weights):
    sup = {}
    for cs, w in zip(clade_sets, weights):
        for c in cs:
            sup[c] = sup.get(c, Fraction(0)) + w
    return sup


def classify(M):
    """what the code must do on the clade family M whatever the set iteration order:
    'ok' (laminar, no size ties), 'inconsistent', 'keyerror', or None (order dependent)"""
    M = list(M)
    nondet = False
    parent = {}
    for c in M:
        sups = [d for d in M if d != c and d >= c]
        sizes = sorted(len(d) for d in sups)
        if len(sizes) >= 2 and sizes[0] == sizes[1]:
            return "inconsistent"
        if len(set(sizes)) != len(sizes):
            nondet = True
        parent[c] = min(sups, key=len) if sups else None
    if nondet:
        return None
    for c in M:
        kids = [d for d in M if parent[d] == c]
        for a, b in itertools.combinations(kids, 2):
            if a & b:
                return "keyerror"
    lam = all(a <= b or b <= a or not (a & b) for a, b in itertools.combinations(M, 2))
    return "ok" if lam else None


def real_consensus(ds, trees, theta, weighted, log_p_list):
    from phyclone.process_trace.consensus import get_consensus_tree
    from phyclone.process_trace.process_trace import get_tree_from_consensus_graph

    graph = get_consensus_tree(trees, data=ds.real, threshold=float(theta), weighted=weighted, log_p_list=log_p_list)
    tree = get_tree_from_consensus_graph(ds.real, graph)
    return graph, tree


def oracle(ctx, case, sup, theta, n, built, err, site):
    """The property itself, from exact supports `sup` (clade -> Fraction) and what the code produced
    (`built` = (forest, outs) or None with `err` the exception).  No Lean model involved."""
    want = {c for c, s in sup.items() if s > theta}
    if err is not None:
        sig = "inconsistent-clades" if "Inconsistent" in str(err) else "exception:" + type(err).__name__
        ctx.oracle_fail(case, f"consensus failed on an in-domain trace: {err!r}", site, sig,
                        {"majority": sorted(sorted(c) for c in want)})
        return False
    forest, outs = built
    got = set(forest_clades(forest))
    ok = True
    if got != want:
        ctx.oracle_fail(case, "clades of the consensus tree differ from the clades with support above the threshold", site,
                        "clade-set", {"missing": sorted(sorted(c) for c in want - got), "extra": sorted(sorted(c) for c in got - want),
                                      "supports": sorted((sorted(c), fr(s)) for c, s in sup.items())})
        ok = False
    covered = set().union(*want) if want else set()
    uncovered = sorted(set(range(n)) - covered)
    if sorted(outs) != uncovered:
        ctx.oracle_fail(case, "data points outside every retained clade are not exactly the ones reported with clone id -1", site,
                        "uncovered", {"outliers": sorted(outs), "uncovered": uncovered})
        ok = False
    return ok


def near_threshold(sup, theta):
    """weighted mode only: the code sums floats, so a support this close to the threshold (equality included) can land on either
    side; the property excludes such inputs"""
    return any(abs(s - theta) < NEAR for s in sup.values())


# ------------------------------------------------------------------------------- checks
def check(ctx, case):
    kind = case["kind"]
    ctx.stat("kind_" + kind)
    if kind == "badreq":
        try:
            ctx.ask(case["req"])
        except ModelError:
            ctx.done(case, nontrivial=False)
            return
        ctx.corr_fail(case, "model answered a malformed request", None)
        ctx.done(case, nontrivial=False)
        return
    if kind == "trace":
        return check_trace(ctx, case)
    return check_mix(ctx, case)


def run_mix(case):
    """real code on a mix-like case -> dict(sup, theta, built, err, real_sup, key_set)"""
    from phyclone.process_trace.consensus import clade_probabilities, key_above_threshold

    ds = dataset(case)
    theta = Fraction(case["theta"])
    specs = case["trees"]
    trees = [build_tree(ds.real, t["forest"], t["outs"]) for t in specs]
    weighted = case["mode"] == "weighted"
    T = len(trees)
    if weighted:
        if len(case["weights"]) == T:
            w = norm_weights(case)
        else:
            w = [Fraction(x) for x in case["weights"]]
        lp = np.array([float(x) for x in w])
    else:
        w = [Fraction(1, T)] * T
        lp = None
    clade_sets = [forest_clades(t["forest"]) for t in specs]
    res = {"ds": ds, "theta": theta, "weights": w, "clade_sets": clade_sets, "trees": trees,
           "sup": exact_supports(clade_sets, w) if len(w) == T else None, "built": None, "err": None, "real_sup": None}
    try:
        res["real_sup"] = dict(clade_probabilities(trees, weighted=weighted, log_p_list=lp))
        res["key_set"] = key_above_threshold(res["real_sup"], float(theta))
        graph, tree = real_consensus(ds, trees, theta, weighted, lp)
        res["graph_nodes"] = graph.number_of_nodes()
        res["built"] = extract(tree)
    except Exception as e:  # judged by the caller
        res["err"] = e
    return res


def check_mix(ctx, case):
    kind = case["kind"]
    r = run_mix(case)
    theta, n, sup = r["theta"], case["n"], r["sup"]
    T = len(case["trees"])
    weighted = case["mode"] == "weighted"
    ctx.stat(f"n_{n}")
    ctx.stat(f"T_{T}")
    ctx.stat("mode_" + case["mode"])
    ctx.stat("theta_" + case["theta"])
    req = {"op": "cons", "n": n, "theta": case["theta"], "trees": [t["forest"] for t in case["trees"]]}
    if weighted:
        req["weights"] = [fr(x) for x in r["weights"]]

    if kind == "short_weights":
        if not isinstance(r["err"], IndexError):
            ctx.corr_fail(case, "code did not raise IndexError with fewer weights than trees", repr(r["err"]))
        try:
            ctx.ask(req)
            ctx.corr_fail(case, "model accepted fewer weights than trees", None)
        except ModelError:
            pass
        ctx.done(case, nontrivial=False)
        return

    for cs, tr in zip(r["clade_sets"], r["trees"]):
        if tr.get_clades() != cs:
            ctx.corr_fail(case, "Tree.get_clades differs from the clades of the requested forest", None)
    if weighted and near_threshold(sup, theta):
        ctx.stat("near_threshold_skipped")
        ctx.done(case, nontrivial=False)
        return
    if any(s == theta for s in sup.values()):
        ctx.stat("support_eq_threshold")
    M = {c for c, s in sup.items() if s > theta}
    in_domain = kind == "mix"
    expect = classify(M)
    ctx.stat("family_" + str(expect))

    # ---- direct oracle (in-domain only)
    if in_domain:
        oracle(ctx, case, sup, theta, n, r["built"], r["err"], "process_trace.consensus.get_consensus_tree")

    # ---- correspondence with the model
    if expect is None and not in_domain:
        # whether the code raises depends on the iteration order of Python sets (only possible outside the domain)
        ctx.stat("order_dependent_skipped")
        ctx.done(case, nontrivial=False)
        return
    try:
        ans = ctx.ask(req)
        merr = None
    except ModelError as e:
        ans, merr = None, str(e)
    if r["err"] is not None:
        if merr is None:
            ctx.corr_fail(case, "code raised, model answered", repr(r["err"]))
        elif expect == "inconsistent" and not ("Inconsistent" in str(r["err"]) and "Inconsistent" in merr):
            ctx.corr_fail(case, "different errors", [repr(r["err"]), merr])
        elif expect == "keyerror" and not (isinstance(r["err"], KeyError) and "KeyError" in merr):
            ctx.corr_fail(case, "different errors", [repr(r["err"]), merr])
        ctx.stat("both_raise")
        ctx.done(case, nontrivial=False)
        return
    if merr is not None:
        ctx.corr_fail(case, "model rejected, code answered", merr)
        ctx.done(case, nontrivial=False)
        return
    compare_result(ctx, case, ans, r["built"], r["real_sup"], r["key_set"], r.get("graph_nodes"))
    distinct_inputs = len({repr((t["forest"], t["outs"])) for t in case["trees"]})
    ctx.stat(f"majority_{min(len(M), 6)}{'+' if len(M) > 6 else ''}")
    if r["built"] and r["built"][1]:
        ctx.stat("has_uncovered")
    empties = sum(1 for _, own in nodes_by_clade(r["built"][0]) if not own)
    if empties:
        ctx.stat("has_empty_own_set" if empties == 1 else "has_several_empty_own_sets")
    ctx.done(case, nontrivial=(distinct_inputs >= 2 and len(M) >= 2),
             sample={"n": n, "T": T, "mode": case["mode"], "theta": case["theta"], "majority": sorted(sorted(c) for c in M),
                     "outs": r["built"][1]})


def compare_result(ctx, case, ans, built, real_sup, key_set, graph_nodes):
    forest, outs = built
    if nodes_by_clade(forest) != nodes_by_clade(ans["forest"]):
        ctx.corr_fail(case, "consensus tree differs (clones compared as (clade, own data))",
                      {"code": nodes_by_clade(forest), "model": nodes_by_clade(ans["forest"])})
    if sorted(outs) != ans["outs"]:
        ctx.corr_fail(case, "outliers differ", {"code": sorted(outs), "model": ans["outs"]})
    msup = {frozenset(c): Fraction(q) for c, q in ans["supports"]}
    if real_sup is not None:
        if set(msup) != set(real_sup):
            ctx.corr_fail(case, "candidate clades differ", None)
        else:
            for c, v in real_sup.items():
                if abs(float(msup[c]) - v) > 1e-9:
                    ctx.corr_fail(case, f"support of {sorted(c)}", {"code": v, "model": fr(msup[c])})
                    break
    if key_set is not None and {frozenset(c) for c in ans["majority"]} != set(key_set):
        ctx.corr_fail(case, "key_above_threshold differs from the model's majority family",
                      {"code": sorted(sorted(c) for c in key_set), "model": ans["majority"]})
    if graph_nodes is not None and graph_nodes != len(ans["majority"]):
        ctx.corr_fail(case, "number of graph nodes differs", {"code": graph_nodes, "model": len(ans["majority"])})


def parse_newick(s):
    """'((5,4)3,(2,1)0)root;' -> {child: parent} over node labels (strings)"""
    s = s.strip().rstrip(";")
    pos = 0
    par = {}

    def node():
        nonlocal pos
        kids = []
        if s[pos] == "(":
            pos += 1
            while True:
                kids.append(node())
                if s[pos] == ",":
                    pos += 1
                    continue
                assert s[pos] == ")"
                pos += 1
                break
        j = pos
        while j < len(s) and s[j] not in ",()":
            j += 1
        name = s[pos:j]
        pos = j
        for k in kids:
            par[k] = name
        return name

    top = node()
    assert pos == len(s)
    return top, par


def outputs_to_tree(table_text, newick_text):
    """consensus command outputs -> (canonical forest, outliers) or raises"""
    rows = [ln.split("\t") for ln in table_text.strip().split("\n")]
    hdr = rows[0]
    mi, ci = hdr.index("mutation_id"), hdr.index("clone_id")
    lab = {}
    for rrow in rows[1:]:
        m = int(rrow[mi])
        if m in lab and lab[m] != rrow[ci]:
            raise AssertionError(f"mutation {m} listed with two clone ids")
        lab[m] = rrow[ci]
    top, par = parse_newick(newick_text)
    names = sorted(set(par) | ({top} - {"root"}))
    if top != "root":
        raise AssertionError("newick top is not the root")
    own = {nm: sorted(m for m, c in lab.items() if c == nm) for nm in names}
    outs = sorted(m for m, c in lab.items() if c == "-1")
    stray = set(lab.values()) - set(names) - {"-1"}
    if stray:
        raise AssertionError(f"table names clones missing from the tree: {stray}")

    def mk(nm):
        return [own[nm], [mk(k) for k in names if par.get(k) == nm]]

    return canon_forest([mk(nm) for nm in names if par[nm] == "root"]), outs, lab


def check_trace(ctx, case):
    from phyclone.process_trace import process_trace as pt

    ds = dataset(case)
    n, theta = case["n"], Fraction(case["theta"])
    weighted = case["wtype"] != "counts"
    ctx.stat("wtype_" + case["wtype"])
    ctx.stat(f"chains_{len(case['chains'])}")
    results = {}
    entries = []
    for cn, ch in enumerate(case["chains"]):
        tr = []
        for i, e in enumerate(ch):
            t = build_tree(ds.real, e["forest"], e["outs"])
            tr.append({"iter": i, "time": 0.0, "alpha": 1.0, "log_p_one": float(np.log(float(Fraction(e["p"])))), "tree": t.to_dict()})
            entries.append(e)
        results[cn] = {"data": ds.real, "samples": ["s0"], "trace": tr, "chain_num": cn}
    # exact supports, straight from the case description
    if weighted:
        topo = {}
        for e in entries:
            key = (forest_clades(e["forest"]), frozenset(e["outs"]))
            p = Fraction(e["p"])
            if key in topo:
                topo[key] = (max(topo[key][0], p), topo[key][1] + 1)
            else:
                topo[key] = (p, 1)
        raw = [pm * k for pm, k in topo.values()]
        w = [x / sum(raw) for x in raw]
        clade_sets = [k[0] for k in topo]
    else:
        w = [Fraction(1, len(entries))] * len(entries)
        clade_sets = [forest_clades(e["forest"]) for e in entries]
    sup = exact_supports(clade_sets, w)
    if weighted and near_threshold(sup, theta):
        ctx.stat("near_threshold_skipped")
        ctx.done(case, nontrivial=False)
        return
    captured = {}
    orig = pt.get_tree_from_consensus_graph
    orig_cons = pt.get_consensus_tree

    def spy(data, graph):
        t = orig(data, graph)
        captured["tree"] = t
        return t

    def spy_cons(trees, *a, **kw):
        lp = kw.get("log_p_list")
        if kw.get("weighted") and lp is not None:
            captured["weights"] = [float(x) for x in np.asarray(lp, dtype=float)]
        return orig_cons(trees, *a, **kw)

    err = built = None
    table = newick = ""
    with tempfile.TemporaryDirectory(prefix="c16_") as d:
        f_in, f_tab, f_nwk = (os.path.join(d, x) for x in ("trace.pkl.gz", "table.tsv", "tree.nwk"))
        with gzip.GzipFile(f_in, "wb") as fh:
            pickle.dump(results, fh)
        pt.get_tree_from_consensus_graph = spy
        pt.get_consensus_tree = spy_cons
        try:
            pt.write_consensus_results(f_in, f_tab, f_nwk, consensus_threshold=float(theta), weight_type=case["wtype"])
            table, newick = open(f_tab).read(), open(f_nwk).read()
        except Exception as e:
            err = e
        finally:
            pt.get_tree_from_consensus_graph = orig
            pt.get_consensus_tree = orig_cons
    site = "process_trace.write_consensus_results"
    if err is None:
        built = extract(captured["tree"])
        try:
            of, oo, lab = outputs_to_tree(table, newick)
            if (forest_clades(of), oo) != (forest_clades(built[0]), sorted(built[1])) or nodes_by_clade(of) != nodes_by_clade(built[0]):
                ctx.oracle_fail(case, "table + Newick outputs describe a different tree than the one the command built", site,
                                "outputs-vs-tree", {"outputs": [of, oo], "tree": list(built)})
            if sorted(lab) != list(range(n)):
                ctx.oracle_fail(case, "result table does not list every data point exactly once", site, "table-rows",
                                {"listed": sorted(lab)})
            built = (of, oo)
        except AssertionError as e:
            ctx.oracle_fail(case, f"outputs not parseable as a tree: {e}", site, "outputs-malformed", None)
    oracle(ctx, case, sup, theta, n, built, err, site)
    if err is not None:
        ctx.done(case, nontrivial=False)
        return
    if weighted:
        flat = [{"forest": e["forest"], "outs": e["outs"], "p": e["p"]} for e in entries]
        ans = ctx.ask({"op": "cons_trace", "n": n, "theta": case["theta"], "trace": flat})
        mw = sorted(Fraction(x) for x in ans["weights"])
        if mw != sorted(w):
            ctx.corr_fail(case, "topology weights differ", {"model": ans["weights"], "exact": [fr(x) for x in w]})
        # the weights the command hands to the consensus builder (one per distinct topology, normalised) vs the model's:
        # a difference that moves no clade across the threshold is not a property failure, but the correspondence is broken
        cw = sorted(captured.get("weights", []))
        if cw and (len(cw) != len(mw) or any(abs(a - float(b)) > 1e-9 for a, b in zip(cw, mw))):
            ctx.corr_fail(case, "topology weights used by write_consensus_results differ from the model's",
                          {"code": cw, "model": [float(x) for x in mw]})
        ans = ans["result"]
    else:
        ans = ctx.ask({"op": "cons", "n": n, "theta": case["theta"], "trees": [e["forest"] for e in entries]})
    compare_result(ctx, case, ans, built, None, None, None)
    M = {c for c, s in sup.items() if s > theta}
    ctx.done(case, nontrivial=(len({repr((e["forest"], e["outs"])) for e in entries}) >= 2 and len(M) >= 2),
             sample={"n": n, "wtype": case["wtype"], "theta": case["theta"], "majority": sorted(sorted(c) for c in M), "newick": newick.strip()})


# ------------------------------------------------------------------------------- search / shrink
def oracle_only(ctx, case):
    if case.get("kind") == "trace":
        class NoModel:
            def __getattr__(self, k):
                return getattr(ctx, k)

            def ask(self, req):
                raise ModelError("search runs without the model")

            def corr_fail(self, *a, **k):
                pass

        try:
            check_trace(NoModel(), case)
        except ModelError:
            pass
        ctx.evaluations += 1
        return
    if case.get("kind") != "mix":
        return
    r = run_mix(case)
    ctx.evaluations += 1
    if case["mode"] == "weighted" and near_threshold(r["sup"], r["theta"]):
        return
    oracle(ctx, case, r["sup"], r["theta"], case["n"], r["built"], r["err"], "process_trace.consensus.get_consensus_tree")


def shared_trace_cases(rnd, k):
    """weighted multi-chain traces in which chains share topologies with different scores and counts, thresholds 1/2 .. 3/5:
    the situation in which a per-chain treatment of topologies changes the majority"""
    out = []
    for i in range(k):
        n = rnd.randint(3, 5)
        base = [dict(t) for t in gen_mixture(rnd, n, rnd.randint(2, 3), outliers=False)]
        chains = []
        for _ in range(rnd.randint(2, 3)):
            ch = []
            for t in base:
                for _ in range(rnd.randint(0, 3)):
                    ch.append(dict(t, p=fr(Fraction(rnd.randint(1, 16), 16))))
            if not ch:
                ch.append(dict(base[0], p=fr(Fraction(rnd.randint(1, 16), 16))))
            rnd.shuffle(ch)
            chains.append(ch)
        out.append({"kind": "trace", "n": n, "dseed": rnd.randrange(1 << 30), "chains": chains, "wtype": "joint-likelihood",
                    "theta": rnd.choice(["1/2", "1/2", "3/5"])})
    return out


def search(ctx, failed_cases, rnd, deadline):
    extra = shared_trace_cases(rnd, 400) if any(c.get("kind") == "trace" for c in failed_cases) else []
    for c in list(failed_cases) + extra + cases("quick", rnd):
        if time.time() > deadline or ctx.oracle_failures:
            break
        oracle_only(ctx, c)


def shrink(failure):
    """drop input trees / data-free detail while the oracle still fails with the same signature"""
    from ..runner import Ctx

    case = failure["case"]
    if case.get("kind") != "mix":
        return failure

    def fails(c):
        x = Ctx(ID, "quick", 0)
        try:
            oracle_only(x, c)
        except Exception:
            return None
        for f in x.oracle_failures:
            if f["signature"] == failure["signature"]:
                return f
        return None

    best = failure
    changed = True
    while changed and len(case["trees"]) > 1:
        changed = False
        for i in range(len(case["trees"])):
            c = dict(case, trees=case["trees"][:i] + case["trees"][i + 1:])
            if "weights" in case:
                c["weights"] = case["weights"][:i] + case["weights"][i + 1:]
            f = fails(c)
            if f:
                case, best, changed = c, f, True
                break
    return best
