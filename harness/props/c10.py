"""C10 — reported CCFs are feasible on the tree and jointly maximise the likelihood."""
import itertools
import math
import time

from fractions import Fraction

import numpy as np

from ..leanio import ModelError
from ..common import DataSet, gen_values, random_canon_tree, build_tree, extract, forest_size, forest_from_parents, all_canon_trees, fr
from phyclone.process_trace import map as mapmod
from phyclone.process_trace.utils import convert_rustworkx_to_networkx

ID = "C10"
LEVEL = "proof"
THEOREMS = ["traceback_feasible", "traceback_optimal", "value_eq_max", "clonalPrev_nonneg"]
BUDGET = {"quick": 100, "thorough": 600}
SEARCH_BUDGET = 30
RULE = ("two styles of real trees, both run through get_map_node_ccfs_and_clonal_prev_dicts: (api) random forests built through "
        "the Tree API from dyadic data (1..7 clones quick / ..12 thorough, multi-mutation clones, outliers, 1-3 samples, grid 2..8 / "
        "..24), the model gets the exact rational value of every float log_p entry and objective values are compared to 1e-9; a "
        "third of them also go through get_clone_table; (exact) random shapes (chains, stars, binary, random; 0..9 clones quick / "
        "..16 thorough) whose log_p arrays are overwritten with multiples of 1/8 (styles: random, few distinct values, flat rows, "
        "all zero, single peaks, duplicated rows) so float arithmetic is exact and the chosen grid indices and clonal prevalences "
        "are compared one-to-one with the model, children sent in the order graph.successors yields. Independently of the model "
        "every case is judged by a Python oracle: on-grid, child-sum and top-level constraints per sample, clonal prevalence = "
        "ccf - children's >= -1e-12, and the objective equals the maximum over an explicit enumeration of all feasible "
        "assignments (when at most 150000 of them). Exhaustive sweeps: every log_p matrix with entries from a 2-3 value set on all labelled shapes of 2 clones (quick) / 2-3 clones (thorough), i.e. every tie pattern. A case is non-trivial when some clone or the virtual root has >= 2 children or the depth is >= 2; "
        "distinct by input digest.")
TRUSTED = ["IEEE-754 arithmetic is outside the model: the clause 'clonal prevalence >= -1e-12' and the float comparisons of the "
           "dynamic programme are decided by the numerical comparison only (the model is exact on the same input numbers)",
           "networkx DiGraph adjacency order and rustworkx weighted_edge_list order are read off the real graph, not modelled"]
ASSUMPTIONS = ["grid size >= 2 (CCF = idx/(G-1)); finite log-likelihood entries (no -inf rows)",
               "api style: ties between distinct assignments closer than 1e-9 in objective are accepted either way"]
TOL = 1e-9
CP_TOL = 1e-12
BRUTE_CAP = 150000
STYLES = ["rand", "few", "flat", "zero", "peak", "dup", "rand", "few"]
SHAPES = ["random", "random", "chain", "star", "binary", "twotop"]


# ------------------------------------------------------------------------------------ generation
def random_shape(rnd, m, style):
    """parent vector over m clones (node i holds data point i)"""
    par = []
    for i in range(m):
        if i == 0:
            par.append(-1)
        elif style == "chain":
            par.append(i - 1)
        elif style == "star":
            par.append(0)
        elif style == "binary":
            par.append((i - 1) // 2)
        elif style == "twotop":
            par.append(-1 if i == 1 else rnd.choice([0, 1] + list(range(i))))
        else:
            par.append(rnd.choice([-1] + list(range(i)) + list(range(i))))
    return forest_from_parents([[i] for i in range(m)], par)


def gen_rows(rnd, style, m, S, G):
    """per clone an S x G matrix of integer numerators (value = k/8)"""
    def row():
        if style == "rand":
            return [rnd.randint(-24, 0) for _ in range(G)]
        if style == "few":
            return [rnd.randint(-2, 0) for _ in range(G)]
        if style == "flat":
            c = rnd.randint(-8, 0)
            return [c] * G
        if style == "zero":
            return [0] * G
        if style == "peak":
            r = [-16] * G
            r[rnd.randrange(G)] = 0
            if rnd.random() < 0.4:
                r[rnd.randrange(G)] = 0
            return r
        raise ValueError(style)

    if style == "dup":
        base = [[rnd.randint(-6, 0) for _ in range(G)] for _ in range(S)]
        return [[list(r) for r in base] if rnd.random() < 0.7 else [[rnd.randint(-6, 0) for _ in range(G)] for _ in range(S)]
                for _ in range(m)]
    if style == "mixed":
        return [gen_rows(rnd, rnd.choice(["rand", "few", "flat", "peak"]), 1, S, G)[0] for _ in range(m)]
    return [[row() for _ in range(S)] for _ in range(m)]


def cases(tier, rnd):
    out = []
    quick = tier == "quick"
    # exact style
    for i in range(170 if quick else 1400):
        big = i % 6 == 5
        m = rnd.randint(1, 9) if not big else rnd.randint(8, 12 if quick else 16)
        if i < 4:
            m = i  # always cover the empty tree and the tiny ones
        S = rnd.choice([1, 1, 2, 3])
        G = rnd.randint(2, 7) if not big else rnd.randint(5, 12 if quick else 24)
        style = (STYLES + ["mixed"])[i % (len(STYLES) + 1)]
        forest = random_shape(rnd, m, rnd.choice(SHAPES))
        out.append({"kind": "exact", "forest": forest, "S": S, "G": G, "style": style, "lp": gen_rows(rnd, style, m, S, G)})
    # api style
    for i in range(70 if quick else 500):
        big = (not quick) and i % 5 == 4
        n = rnd.randint(1, 12 if big else 7)
        S = rnd.randint(1, 3)
        G = rnd.randint(2, 24 if big else 8)
        forest, outs = random_canon_tree(rnd, n, outliers=(i % 4 == 0))
        vals = [gen_values(rnd, S, G, bits=rnd.choice([2, 3, 5])) for _ in range(n)]
        out.append({"kind": "api", "data": DataSet(vals).to_json(), "forest": forest, "outs": outs, "table": i % 3 == 0})
    # exhaustive tie patterns on the smallest shapes
    def singles(n):
        return [f for f, o in all_canon_trees(n) if forest_size(f) == n]

    sweeps = [(2, 3, [-1, 0])] if quick else [(2, 3, [-2, -1, 0]), (2, 4, [-1, 0]), (3, 3, [-1, 0]), (3, 2, [-2, -1, 0])]
    for n, G, levels in sweeps:
        for f in singles(n):
            out.append({"kind": "sweep", "forest": f, "G": G, "levels": levels})
    # requests the model must reject
    out.append({"kind": "malformed", "req": {"op": "map", "G": 3, "S": 1, "forest": [[[["0", "0"]], []]]}})
    out.append({"kind": "malformed", "req": {"op": "map", "G": 3, "S": 2, "forest": [[[["0", "0", "0"]], []]]}})
    out.append({"kind": "malformed", "req": {"op": "map", "G": 1, "S": 1, "forest": [[[["0"]], []]]}})
    out.append({"kind": "malformed", "req": {"op": "map", "G": 3, "S": 1, "forest": [[[["0", "1/0", "0"]], []]]}})
    out.append({"kind": "malformed", "req": {"op": "map", "G": 3, "S": 1, "forest": [[[["0", "0", "0"]]]]}})
    return out


# ------------------------------------------------------------------------------------ real code
def realise(case):
    """Build the real tree of a case.  Returns (tree, S, G)."""
    if case["kind"] == "api":
        ds = DataSet.from_json(case["data"])
        tree = build_tree(ds.real, case["forest"], case["outs"])
        return tree, ds.S, ds.G, ds
    S, G, forest = case["S"], case["G"], case["forest"]
    m = forest_size(forest)
    one = [[Fraction(1)] * G for _ in range(S)]
    ds = DataSet([one for _ in range(max(m, 1))])
    tree = build_tree(ds.real, forest, [])
    by_dp = {}
    for idx in tree._graph.node_indices():
        nd = tree._graph[idx]
        if nd.node_id != tree.root_node_name:
            (dp,) = tuple(nd.data_points)
            by_dp[dp] = nd
    for dp, mat in enumerate(case["lp"]):
        by_dp[dp].log_p[...] = np.array(mat, dtype=float) / 8.0
    return tree, S, G, ds


def structure(tree):
    """From the rustworkx graph itself (not through the code under test): preorder list of
    (node_id, parent position or -1), children positions, exact log_p per node."""
    g = tree._graph
    root = tree._node_indices[tree.root_node_name]
    nodes, kids, lp = [], [], []

    def walk(idx, par):
        me = len(nodes)
        nodes.append((g[idx].node_id, par))
        kids.append([])
        lp.append([[Fraction(float(x)) for x in row] for row in g[idx].log_p])
        if par >= 0:
            kids[par].append(me)
        for c in g.successor_indices(idx):
            walk(c, me)

    top = []
    for c in g.successor_indices(root):
        top.append(len(nodes))
        walk(c, -1)
    return nodes, kids, top, lp


def model_forest(tree, exact_eighths):
    """Forest for the model in the child order graph.successors yields in the converted graph;
    also the preorder list of node ids in that order."""
    nxg = convert_rustworkx_to_networkx(tree._graph.copy())
    order = []

    def enc(x):
        q = Fraction(float(x))
        return fr(q)

    def go(nid):
        order.append(nid)
        vecs = [[enc(x) for x in row] for row in nxg.nodes[nid]["log_p"]]
        return [vecs, [go(c) for c in nxg.successors(nid)]]

    forest = [go(c) for c in nxg.successors(tree.root_node_name)]
    return forest, order


# ------------------------------------------------------------------------------------ oracle
def feasible_assignments(kids, top, budget, cap):
    """Explicit enumeration of every feasible index assignment (dict position -> index): siblings
    share a budget, each clone's children share the clone's index.  Raises OverflowError past cap."""
    count = [0]

    def sibs(lst, b):
        if not lst:
            yield {}
            return
        first, rest = lst[0], lst[1:]
        for i in range(b + 1):
            for sub in sibs(kids[first], i):
                for other in sibs(rest, b - i):
                    d = {first: i}
                    d.update(sub)
                    d.update(other)
                    yield d

    for d in sibs(top, budget):
        count[0] += 1
        if count[0] > cap:
            raise OverflowError
        yield d


def brute_max(nodes, kids, top, lp, s, G, cap=BRUTE_CAP):
    best = None
    n = 0
    for d in feasible_assignments(kids, top, G - 1, cap):
        n += 1
        v = sum((lp[j][s][d[j]] for j in range(len(nodes))), Fraction(0))
        if best is None or v > best:
            best = v
    return best, n


def brute_max_product(nodes, kids, top, lp, s, G):
    """the plainest form: all G^n index lists, filtered by the constraints (cross-checks the enumerator)"""
    m = len(nodes)
    best, n = None, 0
    for a in itertools.product(range(G), repeat=m):
        if sum(a[j] for j in top) > G - 1:
            continue
        if any(sum(a[c] for c in kids[j]) > a[j] for j in range(m)):
            continue
        n += 1
        v = sum((lp[j][s][a[j]] for j in range(m)), Fraction(0))
        if best is None or v > best:
            best = v
    return best, n


def run_code(tree):
    ccf, cp = mapmod.get_map_node_ccfs_and_clonal_prev_dicts(tree)
    return ccf, cp


def oracle(tree, S, G, ccf, cp, brute=True, stat=None):
    """The property's own statement on the code's output.  Returns (failures, idx, objective) with
    failures a list of (what, signature, detail); idx[pos][s] the reported grid indices."""
    nodes, kids, top, lp = structure(tree)
    m = len(nodes)
    fails = []
    names = [nm for nm, _ in nodes]
    if sorted(map(str, ccf.keys())) != sorted(map(str, names)) or sorted(map(str, cp.keys())) != sorted(map(str, names)):
        fails.append(("reported clones differ from the tree's clones", "clone-set", {"ccf": sorted(map(str, ccf)), "tree": sorted(map(str, names))}))
        return fails, None, None
    idx = [[0] * S for _ in range(m)]
    for j, (nm, _) in enumerate(nodes):
        c = np.asarray(ccf[nm], dtype=float)
        p = np.asarray(cp[nm], dtype=float)
        if c.shape != (S,) or p.shape != (S,) or not np.all(np.isfinite(c)) or not np.all(np.isfinite(p)):
            fails.append((f"clone {nm}: CCF / prevalence vector malformed or not finite", "shape", {"ccf": c.tolist(), "cp": p.tolist()}))
            return fails, None, None
        for s in range(S):
            x = c[s] * (G - 1)
            k = int(round(x))
            idx[j][s] = k
            if not (abs(x - k) <= 1e-9 and 0 <= k <= G - 1 and abs(c[s] - k / (G - 1)) <= 1e-12):
                fails.append((f"clone {nm} sample {s}: CCF {c[s]!r} not on the grid of {G} points", "off-grid", None))
    if fails:
        return fails, None, None
    objective = Fraction(0)
    for s in range(S):
        for j, (nm, _) in enumerate(nodes):
            ksum = sum(idx[c][s] for c in kids[j])
            fsum = sum(float(ccf[nodes[c][0]][s]) for c in kids[j])
            if ksum > idx[j][s] or fsum > float(ccf[nm][s]) + CP_TOL:
                fails.append((f"clone {nm} sample {s}: CCF {float(ccf[nm][s])} below the sum of its children's {fsum}", "child-sum", None))
            want = float(ccf[nm][s]) - fsum
            got = float(cp[nm][s])
            if not abs(got - want) <= CP_TOL:
                fails.append((f"clone {nm} sample {s}: clonal prevalence {got} is not ccf - children's = {want}", "prevalence-value", None))
            if not got >= -CP_TOL:
                fails.append((f"clone {nm} sample {s}: clonal prevalence {got} negative", "prevalence-negative", None))
        tsum = sum(idx[j][s] for j in top)
        if tsum > G - 1 or sum(float(ccf[nodes[j][0]][s]) for j in top) > 1 + CP_TOL:
            fails.append((f"sample {s}: top-level clones sum to {tsum}/{G - 1} > 1", "top-sum", None))
        val = sum((lp[j][s][idx[j][s]] for j in range(m)), Fraction(0))
        objective += val
        if brute and m and not fails:
            try:
                best, cnt = brute_max(nodes, kids, top, lp, s, G)
            except OverflowError:
                if stat:
                    stat("brute_force_too_large")
                continue
            if stat:
                stat("brute_force_samples")
                stat("brute_force_assignments", cnt)
            if G ** m <= 3000:
                b2, c2 = brute_max_product(nodes, kids, top, lp, s, G)
                if b2 != best or c2 != cnt:
                    raise RuntimeError(f"oracle self-check: enumerator {best},{cnt} vs product filter {b2},{c2}")
                if stat:
                    stat("brute_force_cross_checked")
            if float(best - val) > TOL:
                fails.append((f"sample {s}: reported assignment has summed log-likelihood {float(val)} but a feasible assignment reaches {float(best)}",
                              "suboptimal", {"reported": float(val), "max": float(best)}))
    return fails, idx, objective


SITE = "process_trace.map.get_map_node_ccfs_and_clonal_prev_dicts"


def shape_stats(kids, top):
    def depth(j):
        return 1 + max([depth(c) for c in kids[j]] + [0])
    d = max([depth(j) for j in top] + [0])
    mk = max([len(top)] + [len(k) for k in kids]) if kids else 0
    inner = max([len(k) for k in kids] + [0])
    return d, mk, inner


# ------------------------------------------------------------------------------------ check
def check(ctx, case):
    kind = case["kind"]
    ctx.stat("kind_" + kind)
    if kind == "malformed":
        try:
            ans = ctx.ask(case["req"])
        except ModelError:
            ctx.stat("malformed_rejected")
            ctx.done(case, nontrivial=False)
            return
        ctx.corr_fail(case, "model accepted a malformed request", ans)
        ctx.done(case, nontrivial=False)
        return
    if kind == "sweep":
        # every matrix with entries from `levels` (in eighths) on this shape: all tie patterns
        m, G = forest_size(case["forest"]), case["G"]
        for combo in itertools.product(case["levels"], repeat=m * G):
            lp = [[list(combo[j * G:(j + 1) * G])] for j in range(m)]
            check_tree(ctx, {"kind": "exact", "forest": case["forest"], "S": 1, "G": G, "style": "sweep", "lp": lp})
        return
    check_tree(ctx, case)


def check_tree(ctx, case):
    kind = case["kind"]
    tree, S, G, ds = realise(case)
    if kind == "api":
        f2, o2 = extract(tree)
        if f2 != case["forest"] or o2 != case["outs"]:
            ctx.corr_fail(case, "tree built through the API differs from the requested tree", [f2, o2])
    nodes, kids, top, lp = structure(tree)
    m = len(nodes)
    d, mk, inner = shape_stats(kids, top)
    ctx.stat(f"clones_{m}")
    ctx.stat(f"G_{G}")
    ctx.stat(f"S_{S}")
    ctx.stat(f"depth_{d}")
    ctx.stat(f"maxkids_{mk}")
    if kind == "exact":
        ctx.stat("style_" + case["style"])
    nontrivial = mk >= 2 or d >= 2
    try:
        ccf, cp = run_code(tree)
    except Exception as e:
        ctx.oracle_fail(case, f"MAP computation raised {type(e).__name__}: {e}", SITE, "exception:" + type(e).__name__)
        ctx.done(case, nontrivial=nontrivial)
        return
    fails, idx, objective = oracle(tree, S, G, ccf, cp, brute=True, stat=ctx.stat)
    for what, sig, detail in fails[:3]:
        ctx.oracle_fail(case, what, SITE, sig, detail)
    # results table (a third of the api cases)
    if kind == "api" and case.get("table") and not fails:
        check_table(ctx, case, tree, ds, ccf, cp)
    # model
    forest, order = model_forest(tree, kind == "exact")
    ans = ctx.ask({"op": "map", "G": G, "S": S, "forest": forest})
    if len(ans["idx"]) != len(order):
        ctx.corr_fail(case, "model returned a different number of clones", {"model": len(ans["idx"]), "code": len(order)})
    elif not fails:
        mval = Fraction(ans["value"])
        if Fraction(ans["root"]) != mval:
            ctx.corr_fail(case, "model: value table at the root differs from the objective of its traceback", [ans["root"], ans["value"]])
        if abs(float(mval - objective)) > TOL:
            ctx.corr_fail(case, "objective of the code's assignment differs from the model's maximum",
                          {"code": float(objective), "model": float(mval)})
        if kind == "exact":
            pos = {nm: j for j, (nm, _) in enumerate(nodes)}
            for t, nm in enumerate(order):
                j = pos[nm]
                if list(ans["idx"][t]) != idx[j]:
                    ctx.corr_fail(case, f"clone {nm}: grid indices differ (tie-breaking / traceback order)",
                                  {"code": idx[j], "model": ans["idx"][t], "order": [str(x) for x in order]})
                    break
                for s in range(S):
                    if abs(float(Fraction(ans["cp"][t][s])) - float(cp[nm][s])) > CP_TOL:
                        ctx.corr_fail(case, f"clone {nm} sample {s}: clonal prevalence differs", {"code": float(cp[nm][s]), "model": ans["cp"][t][s]})
                        break
    ctx.done(case, nontrivial=nontrivial,
             sample={"kind": kind, "forest": case["forest"], "S": S, "G": G, "style": case.get("style"),
                     "reported_idx": idx, "objective": float(objective) if objective is not None else None})


def check_table(ctx, case, tree, ds, ccf, cp):
    from phyclone.process_trace.process_trace import get_clone_table

    samples = [f"s{i}" for i in range(ds.S)]
    try:
        df = get_clone_table(ds.real, samples, tree)
    except Exception as e:
        ctx.oracle_fail(case, f"get_clone_table raised {type(e).__name__}: {e}", "process_trace.get_clone_table", "exception:" + type(e).__name__)
        return
    ctx.stat("table_checked")
    rows = 0
    for rec in df.to_dict("records"):
        cl = rec["clone_id"]
        if cl in ccf:
            s = samples.index(rec["sample_id"])
            rows += 1
            if not (abs(float(rec["ccf"]) - float(ccf[cl][s])) <= 1e-15 and abs(float(rec["clonal_prev"]) - float(cp[cl][s])) <= 1e-15):
                ctx.oracle_fail(case, f"results table row {rec['mutation_id']}/{rec['sample_id']}: ccf/clonal_prev differ from the MAP values of clone {cl}",
                                "process_trace.get_clone_table", "table-value",
                                {"row": {k: (float(v) if isinstance(v, (float, np.floating)) else str(v)) for k, v in rec.items()}})
                return
    n_in = sum(len(tree._graph[i].data_points) for i in tree._graph.node_indices())
    if rows != n_in * ds.S:
        ctx.oracle_fail(case, f"results table has {rows} clone rows, expected {n_in * ds.S}", "process_trace.get_clone_table", "table-rows")


# ------------------------------------------------------------------------------------ search / shrink
def oracle_only(case):
    """[(what, signature, detail)] of the property on the real code for one case, no model."""
    if case.get("kind") not in ("exact", "api"):
        return []  # sweeps are expanded into exact cases by check(); malformed requests never reach the code
    tree, S, G, _ = realise(case)
    try:
        ccf, cp = run_code(tree)
    except Exception as e:
        return [(f"MAP computation raised {type(e).__name__}: {e}", "exception:" + type(e).__name__, None)]
    return oracle(tree, S, G, ccf, cp, brute=True)[0]


def search(ctx, failed_cases, rnd, deadline):
    fresh = [c for c in cases("quick", rnd) if c["kind"] != "malformed"]
    for c in list(failed_cases) + fresh:
        if time.time() > deadline:
            break
        try:
            fails = oracle_only(c)
        except Exception:
            ctx.stat("errors")
            continue
        ctx.evaluations += 1
        if fails:
            what, sig, detail = fails[0]
            ctx.oracle_fail(c, what, SITE, sig, detail)
            return


def _drop_clone(forest, lp, victim):
    """remove the leaf clone holding data point `victim` from an exact-style case; renumber"""
    def rm(fs):
        return [[d, rm(k)] for d, k in fs if d != [victim]]

    def ren(fs):
        return [[[x - (x > victim) for x in d], ren(k)] for d, k in fs]

    return ren(rm(forest)), [r for i, r in enumerate(lp) if i != victim]


def shrink(failure):
    case = failure.get("case")
    if not case or case.get("kind") != "exact":
        return failure
    sig = failure.get("signature")
    deadline = time.time() + 20

    def still(c):
        try:
            return any(f[1] == sig for f in oracle_only(c))
        except Exception:
            return False

    cur = case
    changed = True
    while changed and time.time() < deadline:
        changed = False
        if cur["S"] > 1:
            for s in range(cur["S"]):
                c = dict(cur, S=1, lp=[[m[s]] for m in cur["lp"]])
                if still(c):
                    cur, changed = c, True
                    break
        leaves = []

        def find(fs):
            for d, k in fs:
                if not k:
                    leaves.append(d[0])
                find(k)

        find(cur["forest"])
        for v in leaves:
            f2, lp2 = _drop_clone(cur["forest"], cur["lp"], v)
            c = dict(cur, forest=f2, lp=lp2)
            if still(c):
                cur, changed = c, True
                break
    if cur is case:
        return failure
    fails = [f for f in oracle_only(cur) if f[1] == sig]
    out = dict(failure, case=cur, shrunk_from_clones=forest_size(case["forest"]))
    if fails:
        out["what"], out["detail"] = fails[0][0], fails[0][2]
    return out
