"""C01 — one particle-Gibbs update of the whole tree leaves the log_p_one posterior invariant."""
import json
import os
import math
from fractions import Fraction

import numpy as np

from ..common import (DataSet, gen_values, build_tree, ckey, all_canon_trees, make_tree_dist, KERNELS, tree_key, extract, canon_forest)
from ..enumrng import run_all, TooManyLeaves
from ..common import install_tie_probe, tie_reset, TIE
from phyclone.mcmc.particle_gibbs import ParticleGibbsTreeSampler
from phyclone.run import setup_kernel, setup_samplers
from phyclone.smc.utils import RootPermutationDistribution
from phyclone.utils.dev import clear_proposal_dist_caches

ID = "C01"
LEVEL = "proof"
THEOREMS = ["csmc_invariant", "csmc_invariant_final_resample", "aux_mixture_invariant", "pg_spec_valid", "pg_csmc_invariant", "pg_incr_eq_incrWeight", "reachable_iff_order", "pg_invariant_abstract", "pg_csmc_exec", "pg_step_exec", "pg_invariant"]
BUDGET = {"quick": 150, "thorough": 1200 if os.environ.get("VERIF_DEEP") != "1" else 14000}
RULE = ("configurations = (data set of 1..3 data points with dyadic likelihoods, alpha in {3/10,1,7/2}, proposal in "
        "{bootstrap, semi-adapted, fully-adapted}, outlier modelling off/on, particles N in {2,3}, resampling threshold in "
        "{0,1/2,7/10} (values at which a relative-ESS tie needs irrational weight ratios for N = 2; rows in which a decision still sits within 1e-9 of the threshold are counted and skipped), wiring = run command (setup_kernel/setup_samplers) or library (kernel with RootPermutationDistribution)); "
        "for EVERY start tree on the data set the exact transition row of the real sample_tree is computed with the enumerating "
        "generator (every outcome of the permutation, proposals, resampling and final selection) and compared with the Lean model's "
        "exact row; the direct oracle assembles the full transition matrix per configuration and checks pi K = pi to 1e-10. "
        "Quick: all configurations for n <= 2 and a seeded subset for n = 3; thorough: all for n = 3, sampled n = 4. A case "
        "(configuration, start tree) is non-trivial when the start tree has >= 2 data points; distinct by digest.")
TRUSTED = ["numpy Generator.random/integers/choice/shuffle/multinomial replaced by exact enumeration",
           "resampling threshold exactly 1 is left to C19 (float relative ESS of a uniform swarm can land either side of 1)"]
ASSUMPTIONS = ["exact arithmetic in the theorem; float rounding of weights only enters the resampling decision, ties with the threshold are avoided by the generator"]
KINDS = ["bootstrap", "semi-adapted", "fully-adapted"]
MAX_LEAVES = 300_000


def tkey(f, o):
    return json.dumps([f, o], separators=(",", ":"))


def configs(tier, rnd):
    out = []
    gid = 0
    for n in (1, 2):
        for kind in KINDS:
            for outl in (False, True):
                for wiring in ("run", "lib"):
                    for N in (2, 3):
                        for th in ("0/1", "1/2", "7/10"):
                            if tier == "quick" and n == 1 and th == "7/10":  # N = 3 with one data point stays in: it exercises the resample between `_init_swarm` and the empty loop
                                continue
                            out.append((n, kind, outl, wiring, N, th))
    n3 = []
    for kind in KINDS:
        for outl in (False, True):
            for wiring in ("run", "lib"):
                n3.append((3, kind, outl, wiring, 2, "1/2"))
    # more particles on two data points: resampling with multiplicities (multinomial(N-1) over 4-5 slots)
    n2 = [(2, "semi-adapted", False, "run", 4, "1/2")]
    # a single particle (`--num-particles 1`): the swarm is the retained path alone, the update must return the start tree
    n2 += [(n, kind, outl, "run", 1, "1/2") for n in (1, 2) for kind in KINDS for outl in (False, True)]
    if tier == "quick":
        rnd.shuffle(n3)
        n3 = n3[:3]
    else:
        n3 += [(3, kind, False, "run", 3, th) for kind in KINDS for th in ("0/1", "7/10")]
        n2 += [(2, kind, False, w, 4, th) for kind in KINDS for w in ("run", "lib") for th in ("0/1", "7/10")]
        n2 += [(2, "bootstrap", True, "run", 4, "1/2"), (2, "fully-adapted", False, "run", 5, "1/2")]
    deep = []
    if os.environ.get("VERIF_DEEP") == "1":
        # optional soak (not part of the registered tiers): the full 243-tree matrix on four data points
        deep = [(4, kind, False, "run", 2, "1/2") for kind in KINDS]
    return out + n3 + n2 + deep


def cases(tier, rnd):
    out = []
    for gid, (n, kind, outl, wiring, N, th) in enumerate(configs(tier, rnd)):
        S, G = rnd.randint(1, 2), rnd.randint(3, 4)
        vals = [gen_values(rnd, S, G, bits=3) for _ in range(n)]
        ds = DataSet(vals, Fraction(1, 5) if outl else Fraction(0))
        alpha = rnd.choice(["3/10", "1/1", "7/2"])
        states = all_canon_trees(n, outliers=outl)
        for si, (f, o) in enumerate(states):
            out.append({"group": gid, "nstates": len(states), "data": ds.to_json(), "alpha": alpha, "kind": kind, "outliers": outl,
                        "wiring": wiring, "N": N, "theta": th, "start": [f, o], "n": n})
    # the burn-in sampler (unconditional SMC) shares proposals, weights and resampling with the update above:
    # its exact rows are compared with the model too (correspondence only - it is not meant to be invariant)
    base = len(out)
    smc_cfgs = [(2, k, o) for k in KINDS for o in (False, True)] + [(3, k, False) for k in (KINDS if tier == "thorough" else KINDS[:1])]
    for j, (n, kind, outl) in enumerate(smc_cfgs):
        S, G = 1, rnd.randint(3, 4)
        vals = [gen_values(rnd, S, G, bits=3) for _ in range(n)]
        ds = DataSet(vals, Fraction(1, 5) if outl else Fraction(0))
        alpha = rnd.choice(["3/10", "1/1", "7/2"])
        states = all_canon_trees(n, outliers=outl)
        for f, o in states:
            out.append({"group": f"smc{j}", "nstates": len(states), "data": ds.to_json(), "alpha": alpha, "kind": kind, "outliers": outl,
                        "wiring": "burnin", "N": 2, "theta": rnd.choice(["1/2", "7/10"]), "start": [f, o], "n": n})
    # heavier rows first so the pool balances
    out.sort(key=lambda c: -c["n"])
    return out


def make_sampler(case, ds, td, rng):
    if case["wiring"] == "burnin":
        kernel = setup_kernel(float(ds.outlier_prob), case["kind"], rng, td)
        return setup_samplers(kernel, case["N"], float(ds.outlier_prob), float(Fraction(case["theta"])), rng, td).burnin_sampler
    if case["wiring"] == "run":
        kernel = setup_kernel(float(ds.outlier_prob), case["kind"], rng, td)
        return setup_samplers(kernel, case["N"], float(ds.outlier_prob), float(Fraction(case["theta"])), rng, td).tree_sampler
    op = 0.2 if case["outliers"] else 0.0
    kernel = KERNELS[case["kind"]](td, rng, outlier_proposal_prob=op, perm_dist=RootPermutationDistribution())
    return ParticleGibbsTreeSampler(kernel, rng, num_particles=case["N"], resample_threshold=float(Fraction(case["theta"])))


def model_op(case):
    if not case["outliers"]:
        return "0/1"
    return "1/5" if case["wiring"] == "lib" else "1/10"


def real_row(case, ds, td):
    f, o = case["start"]

    def run(rng):
        clear_proposal_dist_caches()
        t = make_sampler(case, ds, td, rng).sample_tree(build_tree(ds.real, f, o))
        ff, oo = extract(t)  # also asserts well-formedness and data conservation (C07)
        return tkey(ff, oo)

    row = {}
    leaves = 0
    for p, r in run_all(run, MAX_LEAVES):
        row[r] = row.get(r, 0.0) + p
        leaves += 1
    return row, leaves


def check(ctx, case):
    ds = DataSet.from_json(case["data"])
    td = make_tree_dist(Fraction(case["alpha"]))
    f, o = case["start"]
    ctx.stat(f"n_{case['n']}")
    ctx.stat("kind_" + case["kind"])
    ctx.stat("wiring_" + case["wiring"])
    ctx.stat(f"N_{case['N']}_theta_{case['theta']}")
    install_tie_probe()
    tie_reset(Fraction(case["theta"]))
    try:
        row, leaves = real_row(case, ds, td)
    except TooManyLeaves:
        ctx.stat("rows_skipped_too_many_leaves")  # not judged; the configuration's matrix stays incomplete
        ctx.done(case, nontrivial=False, sample={"skipped": "too many leaves", "start": case["start"]})
        return
    ctx.stat("enumerated_leaves", leaves)
    if TIE["hit"]:
        # a resampling decision sat on the threshold: exact and float arithmetic may legitimately disagree
        ctx.stat("rows_skipped_threshold_tie")
        ctx.done(case, nontrivial=False, sample={"skipped": "relative ESS within 1e-9 of the threshold", "start": case["start"]})
        return
    tot = sum(row.values())
    if abs(tot - 1) > 1e-9:
        ctx.corr_fail(case, f"enumerated probabilities sum to {tot}", None)
    lp1 = float(td.log_p_one(build_tree(ds.real, f, o)))
    if case["wiring"] != "burnin":
        ctx.partial(case["group"], {"start": tkey(f, o), "row": row, "lp1": lp1, "nstates": case["nstates"],
                                    "case": {k: v for k, v in case.items() if k != "start"}})
    ans = ctx.ask({"op": "smc" if case["wiring"] == "burnin" else "pg", "data": case["data"], "N": case["N"], "theta": case["theta"],
                   "cfg": {"kind": case["kind"], "op": model_op(case), "alpha": case["alpha"], "perm": True},
                   "tree": {"forest": f, "outs": o}})
    mrow = {tkey(t[0], t[1]): Fraction(q) for t, q in ans["dist"]}
    for k in set(mrow) | set(row):
        if abs(float(mrow.get(k, 0)) - row.get(k, 0.0)) > 1e-10:
            ctx.corr_fail(case, f"transition probability to {k}", {"code": row.get(k, 0.0), "model": float(mrow.get(k, 0))})
            break
    ctx.done(case, nontrivial=(case["n"] >= 2), sample={k: case[k] for k in ("kind", "outliers", "wiring", "N", "theta", "alpha", "start")})


def finalize(ctx):
    groups = {}
    for g, p in ctx.partials:
        groups.setdefault(g, []).append(p)
    for g, ps in groups.items():
        if len(ps) != ps[0]["nstates"]:
            ctx.stat("incomplete_groups")
            continue
        keys = [p["start"] for p in ps]
        idx = {k: i for i, k in enumerate(keys)}
        lp = np.array([p["lp1"] for p in ps])
        pi = np.exp(lp - lp.max())
        pi /= pi.sum()
        K = np.zeros((len(keys), len(keys)))
        bad = None
        for i, p in enumerate(ps):
            for k, v in p["row"].items():
                if k not in idx:
                    bad = k
                else:
                    K[i, idx[k]] += v
        case = dict(ps[0]["case"])
        site = "mcmc.particle_gibbs.ParticleGibbsTreeSampler.sample_tree" + (" via run.setup_kernel" if case["wiring"] == "run" else "")
        if bad is not None:
            ctx.oracle_fail(case, f"update returned a tree outside the state space: {bad}", site, "outside-state-space")
            continue
        err = np.abs(pi @ K - pi)
        ctx.stat("matrices_checked")
        if err.max() > 1e-10:
            j = int(err.argmax())
            case["target"] = json.loads(keys[j])
            ctx.oracle_fail(case, f"posterior not invariant: max |pi K - pi| = {err.max():.3e} at tree {keys[j]}", site, "not-invariant",
                            {"max_abs": float(err.max()), "pi": float(pi[j]), "piK": float((pi @ K)[j])})


def search(ctx, failed, rnd, deadline):
    """Oracle only: exact invariance on the smallest configurations of every kind."""
    import time

    for kind in KINDS:
        for outl in (False, True):
            for wiring in ("run", "lib"):
                if time.time() > deadline:
                    return
                vals = [gen_values(rnd, 1, 3, bits=3) for _ in range(2)]
                ds = DataSet(vals, Fraction(1, 5) if outl else Fraction(0))
                td = make_tree_dist(1.0)
                states = all_canon_trees(2, outliers=outl)
                sub = type(ctx)(ctx.pid, ctx.tier, ctx.seed, None)
                for f, o in states:
                    case = {"group": 0, "nstates": len(states), "data": ds.to_json(), "alpha": "1/1", "kind": kind, "outliers": outl,
                            "wiring": wiring, "N": 2, "theta": "1/2", "start": [f, o], "n": 2}
                    row, _ = real_row(case, ds, td)
                    sub.partial(0, {"start": tkey(f, o), "row": row, "lp1": float(td.log_p_one(build_tree(ds.real, f, o))),
                                    "nstates": len(states), "case": {k: v for k, v in case.items() if k != "start"}})
                    ctx.evaluations += 1
                finalize(sub)
                ctx.oracle_failures += sub.oracle_failures
                if sub.oracle_failures:
                    return


def replay(ctx, case):
    """A replay names a configuration (and possibly one start tree): recompute every row of that configuration and judge it."""
    ds = DataSet.from_json(case["data"])
    states = all_canon_trees(case["n"], outliers=case["outliers"])
    base = {k: v for k, v in case.items() if k not in ("start", "target")}
    base["group"] = base.get("group", "replay")
    base["nstates"] = len(states)
    for f, o in states:
        check(ctx, dict(base, start=[f, o]))
    finalize(ctx)
