"""Sequential reference for C18, run in a child interpreter (`python -m harness.inject_c18.c18_ref spec out`).

No pool, no CLI: seeds the main generator exactly as `run` does, loads the data with it, then runs
`run_phyclone_chain` once on (a copy of) the main generator and once on every spawned child, one
after the other in this single process, and writes the canonical traces as JSON.  This is the
model's `body` function given extensionally: generator label -> trace.

Also holds the canonical form of a trace shared with the check (`canon_trace`, `load_results`)."""
import copy
import gzip
import hashlib
import json
import pickle
import sys


def canon_entry(entry):
    from phyclone.tree import Tree
    from ..common import extract

    tree = Tree.from_dict(entry["tree"])
    forest, outs = extract(tree, check=False)
    labels = sorted(
        [str(node), sorted(int(d.idx) for d in dps), str(tree.get_parent(node))]
        for node, dps in tree.node_data.items()
        if node != tree.outlier_node_name
    )
    names = {str(node): sorted(str(d.name) for d in dps) for node, dps in tree.node_data.items()}
    return {
        "iter": int(entry["iter"]),
        "alpha": float(entry["alpha"]).hex(),
        "log_p_one": float(entry["log_p_one"]).hex(),
        "tree": [forest, outs],
        "labels": labels,
        "names": sorted(names.items()),
    }


def canon_trace(trace):
    return [canon_entry(e) for e in trace]


def digest(obj):
    return hashlib.sha1(json.dumps(obj, sort_keys=True).encode()).hexdigest()[:16]


def load_results(path):
    """trace file of `phyclone run` -> [(dict key, chain_num carried in the result, canonical trace, samples)] in dict order"""
    with gzip.GzipFile(path, "rb") as fh:
        results = pickle.load(fh)
    out = [[int(k), int(v["chain_num"]), canon_trace(v["trace"]), [str(s) for s in v["samples"]]] for k, v in results.items()]
    return json.loads(json.dumps(out))  # tuples -> lists, as in the reference's JSON


def main(spec_path, out_path):
    spec = json.load(open(spec_path))
    o = spec["opts"]
    import phyclone.run as R

    seed, k = o["seed"], o["num_chains"]
    outlier_prob = o["outlier_prob"]
    if (o["assign_loss_prob"] or o["user_provided_loss_prob"]) and outlier_prob == 0:
        outlier_prob = 0.0001  # as in run()
    rng_main = R.instantiate_and_seed_RNG(seed)
    data, samples = R.load_data(
        spec["in_file"], rng_main, o["low_loss_prob"], o["high_loss_prob"], o["assign_loss_prob"],
        cluster_file=spec.get("cluster_file"), density=o["density"], grid_size=o["grid_size"],
        outlier_prob=outlier_prob, precision=o["precision"],
    )

    def chain(rng, num):
        res = R.run_phyclone_chain(
            burnin=o["burnin"], concentration_update=o["concentration_update"], concentration_value=o["concentration_value"],
            data=data, max_time=float("inf"), num_iters=o["num_iters"], num_particles=o["num_particles"],
            num_samples_data_point=o["num_samples_data_point"], num_samples_prune_regraph=o["num_samples_prune_regraph"],
            outlier_prob=outlier_prob, print_freq=o["print_freq"], proposal=o["proposal"],
            resample_threshold=o["resample_threshold"], rng=rng, samples=samples, thin=o["thin"], chain_num=num,
            subtree_update_prob=o["subtree_update_prob"],
        )
        return {"chain_num": int(res["chain_num"]), "trace": canon_trace(res["trace"])}

    out = {"main": chain(copy.deepcopy(rng_main), 0)}
    children = copy.deepcopy(rng_main).spawn(max(k, 1))
    for i, g in enumerate(children):
        out[f"c{i}"] = chain(g, i)
    json.dump(out, open(out_path, "w"))


if __name__ == "__main__":
    main(sys.argv[1], sys.argv[2])
