"""Run-time instrumentation for the C18 check (no edit of /repo).

This directory is put on PYTHONPATH of the `phyclone run` subprocesses the check starts, so Python
imports this module in every interpreter of the run: the CLI process and, because the pool uses the
`spawn` context, every chain worker.  It does nothing unless PHYCLONE_VERIF_C18 holds a JSON object:

  dir      directory for marker files (one per chain event; the check reads them back)
  cpus     list of CPU numbers to pin the process to (inherited by the workers), or null
  start    list of chain numbers: chain start[j] does not begin before start[j-1] has begun
  finish   list of chain numbers: chain finish[j] does not return before finish[j-1] has returned
  sleep    {chain: [seconds before the chain body, seconds after it]}
  timeout  upper bound in seconds for each wait (a wait that times out is recorded, never fatal)
  (with `oneworker`, the values the two process-wide memo tables of phyclone.tree.utils hold are *perturbed in place* before a
           worker starts a further chain: a chain that begins from cold tables never sees them, a chain that reads an entry
           left by an earlier chain changes visibly - this turns a last-bit dependence into a deterministic difference)
  oneworker  seconds: every pool worker except the first one to come up sleeps this long at interpreter start, so
           that the first worker takes all chains one after the other (the schedule a slow `spawn` produces on a busy
           machine for short chains): a chain's trace must not depend on what its process ran before

`phyclone.run.run_phyclone_chain` is wrapped when `phyclone.run` is imported (lazily, through an
import hook, so helper processes that never import phyclone pay nothing).  The wrapper changes
*when* a chain starts and returns, never what it computes.
"""
import json
import os
import sys
import time

_SPEC = os.environ.get("PHYCLONE_VERIF_C18")


def _mark(spec, name, payload):
    d = spec.get("dir")
    if not d:
        return
    tmp = os.path.join(d, f".{name}.{os.getpid()}.tmp")
    with open(tmp, "w") as fh:
        json.dump(payload, fh)
    os.replace(tmp, os.path.join(d, name))


def _wait_for(spec, name, waited):
    d = spec.get("dir")
    if not d:
        return
    limit = time.time() + float(spec.get("timeout", 30))
    path = os.path.join(d, name)
    while not os.path.exists(path):
        if time.time() > limit:
            waited.append({"for": name, "timed_out": True})
            return
        time.sleep(0.02)
    waited.append({"for": name, "timed_out": False})


def _patch(module, spec):
    import functools
    import inspect

    orig = module.run_phyclone_chain
    if getattr(orig, "_c18_wrapped", False):
        return
    sig = inspect.signature(orig)
    state = {"chains_done": 0, "arrays": []}
    if spec.get("oneworker"):
        try:
            import numpy as _np
            import phyclone.tree.utils as _tu
            import phyclone.tree.tree_node as _tn

            def _recording(fn):
                @functools.wraps(fn)
                def wrapper(*a, **k):
                    r = fn(*a, **k)
                    if isinstance(r, _np.ndarray) and r.ndim >= 1:
                        state["arrays"].append(r)
                    return r

                for attr in ("cache_info", "cache_clear", "__wrapped__"):
                    if hasattr(fn, attr):
                        setattr(wrapper, attr, getattr(fn, attr))
                return wrapper

            _conv = _recording(_tu._convolve_two_children)
            _logs = _recording(_tu.compute_log_S)
            _tu._convolve_two_children = _conv
            _tu.compute_log_S = _logs
            if getattr(_tn, "compute_log_S", None) is not None:
                _tn.compute_log_S = _logs
        except Exception:
            pass

    @functools.wraps(orig)
    def run_phyclone_chain(*args, **kwargs):
        try:
            chain = int(sig.bind(*args, **kwargs).arguments["chain_num"])
        except Exception:
            return orig(*args, **kwargs)
        waited = []
        start, finish = spec.get("start") or [], spec.get("finish") or []
        pre, post = (spec.get("sleep") or {}).get(str(chain), [0, 0])
        if chain in start and start.index(chain) > 0:
            _wait_for(spec, f"start_{start[start.index(chain) - 1]}", waited)
        if pre:
            time.sleep(pre)
        poisoned = 0
        if state["chains_done"] > 0 and state["arrays"]:
            # this process has run a chain before: whatever its memo tables still hold is made visibly wrong
            for arr in state["arrays"]:
                try:
                    arr += 0.37
                    poisoned += 1
                except Exception:
                    pass
        state["arrays"] = []
        _mark(spec, f"start_{chain}", {"chain": chain, "pid": os.getpid(), "t": time.time(), "hashseed": os.environ.get("PYTHONHASHSEED"),
                                      "cpus": sorted(os.sched_getaffinity(0)) if hasattr(os, "sched_getaffinity") else None,
                                      "stale_table_values_perturbed": poisoned})
        result = orig(*args, **kwargs)
        state["chains_done"] += 1
        if chain in finish and finish.index(chain) > 0:
            _wait_for(spec, f"finish_{finish[finish.index(chain) - 1]}", waited)
            time.sleep(0.25)  # let the predecessor's result reach the parent first
        if post:
            time.sleep(post)
        _mark(spec, f"finish_{chain}", {"chain": chain, "pid": os.getpid(), "t": time.time(), "waited": waited})
        return result

    run_phyclone_chain._c18_wrapped = True
    module.run_phyclone_chain = run_phyclone_chain


def _install(spec):
    import importlib.abc

    class Finder(importlib.abc.MetaPathFinder):
        busy = False

        def find_spec(self, name, path, target=None):
            if name != "phyclone.run" or Finder.busy:
                return None
            Finder.busy = True
            try:
                found = None
                for f in sys.meta_path:
                    if f is self or not hasattr(f, "find_spec"):
                        continue
                    found = f.find_spec(name, path, target)
                    if found is not None:
                        break
            finally:
                Finder.busy = False
            if found is None or found.loader is None:
                return found
            inner = found.loader

            class Loader(importlib.abc.Loader):
                def create_module(self, s):
                    return inner.create_module(s)

                def exec_module(self, module):
                    inner.exec_module(module)
                    _patch(module, spec)

                def __getattr__(self, item):
                    return getattr(inner, item)

            found.loader = Loader()
            return found

    sys.meta_path.insert(0, Finder())


if _SPEC:
    try:
        _spec = json.loads(_SPEC)
    except ValueError:
        _spec = None
    if isinstance(_spec, dict):
        if _spec.get("cpus") and hasattr(os, "sched_setaffinity"):
            try:
                os.sched_setaffinity(0, set(_spec["cpus"]))
            except OSError:
                pass
        if _spec.get("oneworker") and _spec.get("dir") and "--multiprocessing-fork" in sys.argv:
            try:
                _fd = os.open(os.path.join(_spec["dir"], "first_worker"), os.O_CREAT | os.O_EXCL | os.O_WRONLY)
                os.write(_fd, str(os.getpid()).encode())
                os.close(_fd)
            except FileExistsError:
                time.sleep(float(_spec["oneworker"]))
            except OSError:
                pass
        _install(_spec)
