"""Talks to the Lean model driver over the line protocol (one JSON request / answer per line)."""
import json
import os
import subprocess

LEAN_DIR = os.path.join(os.path.dirname(os.path.dirname(os.path.abspath(__file__))), "lean")


def run(cmd, timeout=1800):
    p = subprocess.run(cmd, cwd=LEAN_DIR, stdout=subprocess.PIPE, stderr=subprocess.STDOUT, text=True, timeout=timeout)
    return p.returncode, p.stdout


def build(targets):
    """lake build <targets>; returns (ok, log)."""
    rc, out = run(["lake", "build"] + list(targets))
    return rc == 0, out


class ModelError(RuntimeError):
    pass


class Driver:
    """Persistent model process.  Native executable when it builds, `lean --run` otherwise."""

    def __init__(self, do_build=True):
        ok, log = build(["driver"]) if do_build else (True, "")
        exe = os.path.join(LEAN_DIR, ".lake", "build", "bin", "driver")
        if ok and os.path.exists(exe):
            self.cmd = [exe]
            self.mode = "native"
        else:
            self.cmd = ["lake", "env", "lean", "--run", "Driver.lean"]
            self.mode = "interpreted"
        self.build_ok = ok
        self.build_log = log
        self.p = None
        self.requests = 0

    def _start(self):
        self.p = subprocess.Popen(self.cmd, cwd=LEAN_DIR, stdin=subprocess.PIPE, stdout=subprocess.PIPE, text=True, bufsize=1)

    def ask(self, req):
        """Returns the model's answer (dict) or raises ModelError (the model rejected the request)."""
        if self.p is None or self.p.poll() is not None:
            self._start()
        self.requests += 1
        self.p.stdin.write(json.dumps(req, separators=(",", ":")) + "\n")
        self.p.stdin.flush()
        line = self.p.stdout.readline()
        if not line:
            raise ModelError("model driver died")
        ans = json.loads(line)
        if "err" in ans:
            raise ModelError(ans["err"])
        return ans["ok"]

    def close(self):
        if self.p is not None and self.p.poll() is None:
            try:
                self.p.stdin.close()
                self.p.wait(timeout=10)
            except Exception:
                self.p.kill()
        self.p = None
