
import sys as _sys

# exact rationals from the Lean driver can have thousands of digits (N = 3 particle systems); Python 3.11+ refuses to
# parse integers beyond 4300 digits unless told otherwise
if hasattr(_sys, "set_int_max_str_digits"):
    _sys.set_int_max_str_digits(0)
