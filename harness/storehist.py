"""Edit histories over several live `phyclone.tree.Tree` handles (shared by C06, C07, C15).

* grammar + abstract simulator (`AbsSys`): what an edit *should* do to the labelled forest, names and
  graph indices forgotten; it also decides which histories are in the samplers' grammar (`Legal` of
  lean/PhyModel/Proofs/StoreInv.lean) and gives the generator something to address clones by;
* generator (`gen_history`): the compositions the samplers make (SMC placements, retained path,
  data-point move, prune-regraft, subtree move with outlier hand-over and grafting a rebuilt subtree,
  relabel / copy / dict / pickle / update), several live handles edited alternately; plus a smaller
  stream of histories outside that grammar (`gen_weird`), for the model/code correspondence only;
* executor on the real code (`RealSys`), independent oracles (`wf_problems`, `cache_problems`),
  comparison with the Lean store model (`compare_dump`), shrinking.

Ops never mention node names or graph indices: a clone is addressed by a data point it owns
(`{"dp": 3}`), the outlier set by `"out"`, the virtual root by `"root"`, the clone last added to by
`"last"`, a parent by `{"par": addr}`.  Both sides resolve an address against their own state."""
import copy as _copy
import math
import pickle
from fractions import Fraction

import numpy as np

from phyclone.tree import Tree

from .common import DataSet, canon_forest, build_tree, make_tree_dist, fr

TOL0 = 1e-9
DRIFT = 1e-13


class Illegal(Exception):
    """the op is outside the samplers' grammar (or cannot be interpreted on the abstract state)"""


# =========================================================================== abstract simulator
class AbsTree:
    __slots__ = ("f", "o", "dense", "tok", "origin", "last")

    def __init__(self):
        self.f = []  # list of [dps, kids]
        self.o = []
        self.dense = True  # clone names are 0..K-1 (what makes `create_root_node`'s name fresh)
        self.tok = object()  # identity of the naming / shape state
        self.origin = None  # (token of the source tree at `get_subtree`, own token then)
        self.last = None  # node object | "out" | None | "stale"

    def clone(self):
        t = AbsTree()
        memo = {}
        t.f = _copy.deepcopy(self.f, memo)
        t.o = list(self.o)
        t.dense, t.tok, t.origin = self.dense, self.tok, self.origin
        if isinstance(self.last, list):
            t.last = memo.get(id(self.last), "stale")
        else:
            t.last = self.last
        return t

    # -- queries
    def nodes(self):
        out = []

        def go(lst, par):
            for nd in lst:
                out.append((nd, par, lst))
                go(nd[1], nd)

        go(self.f, None)
        return out

    def find(self, dp):
        for nd, par, lst in self.nodes():
            if dp in nd[0]:
                return nd, par, lst
        return None

    def locate(self, node):
        for nd, par, lst in self.nodes():
            if nd is node:
                return nd, par, lst
        return None

    def all_dps(self):
        return [d for nd, _, _ in self.nodes() for d in nd[0]] + list(self.o)

    def forest_dps(self):
        return [d for nd, _, _ in self.nodes() for d in nd[0]]

    def canon(self):
        return canon_forest(self.f), sorted(self.o)

    def key(self):
        cl = set()

        def go(nd):
            s = set(nd[0])
            for k in nd[1]:
                s |= go(k)
            cl.add(frozenset(s))
            return s

        for x in self.f:
            go(x)
        return frozenset(cl), frozenset(self.o)


def sub_canon(nd):
    return canon_forest([nd])


class AbsSys:
    """abstract semantics of a history; `strict` = only the samplers' grammar is accepted"""

    def __init__(self, strict=True):
        self.h = [AbsTree()]
        self.strict = strict

    def resolve(self, t, a):
        """-> ("out",) | ("root",) | ("node", nd, par, lst); Illegal when it does not resolve"""
        if a == "out":
            return ("out",)
        if a == "root":
            return ("root",)
        if a == "last":
            if self.strict:
                raise Illegal("'last' address in the sampler grammar")
            if t.last == "out":
                return ("out",)
            if isinstance(t.last, list):
                r = t.locate(t.last)
                if r:
                    return ("node",) + r
            raise Illegal("last does not resolve")
        if isinstance(a, dict) and "dp" in a:
            r = t.find(a["dp"])
            if r is None:
                if a["dp"] in t.o:
                    return ("out",)
                raise Illegal(f"data point {a['dp']} not in tree")
            return ("node",) + r
        if isinstance(a, dict) and "par" in a:
            r = self.resolve(t, a["par"])
            if r[0] != "node":
                raise Illegal("parent of non-clone")
            return ("root",) if r[2] is None else ("node",) + t.locate(r[2])
        raise Illegal(f"bad address {a}")

    def get(self, i):
        if not (0 <= i < len(self.h)):
            raise Illegal(f"no handle {i}")
        return self.h[i]

    def apply(self, op):
        """apply one protocol op; returns the list of handles it may have changed"""
        o = op["o"]
        S = self.strict
        if o == "fresh":
            self.h.append(AbsTree())
            return [len(self.h) - 1]
        t = self.get(op["h"])
        if o in ("create", "createAdd"):
            dps = [op["dp"]] if o == "createAdd" else list(op["dps"])
            kids = []
            for a in op["kids"]:
                r = self.resolve(t, a)
                if r[0] != "node" or r[2] is not None or any(r[1] is k for k in kids):
                    raise Illegal("child is not a distinct top-level clone")
                kids.append(r[1])
            if S and (not t.dense or not dps):
                raise Illegal("create on a tree without dense names / with no data")
            if S and (set(dps) & set(t.all_dps()) or len(set(dps)) != len(dps)):
                raise Illegal("data point already present")
            if not S and len(set(dps)) != len(dps):
                raise Illegal("duplicate in data list")
            nd = [list(dps), kids]
            t.f = [nd] + [x for x in t.f if not any(x is k for k in kids)]
            t.tok = object()
            t.last = nd
            return [op["h"]]
        if o == "addDp":
            r = self.resolve(t, op["to"])
            if op["dp"] in t.all_dps():
                raise Illegal("data point already present")
            if r[0] == "out":
                t.o.append(op["dp"])
                t.last = "out"
            elif r[0] == "node":
                r[1][0].append(op["dp"])
                t.last = r[1]
            else:
                raise Illegal("add to root")
            return [op["h"]]
        if o == "rmDp":
            r = self.resolve(t, op["from"])
            if r[0] == "out":
                if op["dp"] not in t.o:
                    raise Illegal("not an outlier")
                t.o.remove(op["dp"])
            elif r[0] == "node":
                if op["dp"] not in r[1][0]:
                    raise Illegal("data point not in that clone")
                if S and len(r[1][0]) < 2:
                    raise Illegal("would empty a clone")
                r[1][0].remove(op["dp"])
            else:
                raise Illegal("remove from root")
            return [op["h"]]
        if o == "rmOut":
            if op["dp"] not in t.o:
                raise Illegal("not an outlier")
            t.o.remove(op["dp"])
            return [op["h"]]
        if o == "getSub":
            r = self.resolve(t, op["root"])
            if r[0] == "out":
                raise Illegal("subtree of the outlier node")
            if r[0] == "root":
                n = t.clone()
                n.origin = None
            else:
                n = AbsTree()
                n.f = [_copy.deepcopy(r[1])]
                n.dense = False
                n.origin = (t.tok, n.tok)
            self.h.append(n)
            return [op["h"], len(self.h) - 1]
        if o == "rmSub":
            sb = self.get(op["hs"])
            if sb.key() == t.key():
                t.f, t.o, t.dense, t.tok, t.last = [], [], True, object(), None
                return [op["h"], op["hs"]]
            if len(sb.f) != 1:
                raise Illegal("subtree without a single root")
            if S and not (sb.origin and sb.origin[0] is t.tok and sb.origin[1] is sb.tok):
                raise Illegal("subtree was not extracted from this tree in its present state")
            anchor = None
            for nd, par, lst in t.nodes():
                if sub_canon(nd) == sub_canon(sb.f[0]):
                    anchor = (nd, par, lst)
                    break
            if anchor is None:
                raise Illegal("subtree not found in the host")
            anchor[2][:] = [x for x in anchor[2] if x is not anchor[0]]
            t.dense = False
            t.tok = object()
            return [op["h"], op["hs"]]
        if o == "addSub":
            sb = self.get(op["hs"])
            r = self.resolve(t, op["par"])
            if r[0] == "out":
                raise Illegal("graft under the outlier node")
            if set(sb.forest_dps()) & set(t.all_dps()):
                if S:
                    raise Illegal("grafted data already present")
            memo = {}
            g = _copy.deepcopy(sb.f, memo)
            if r[0] == "root":
                t.f = g + t.f
            else:
                r[1][1][:] = g + r[1][1]
            t.dense = False
            t.tok = object()
            t.last = "stale"
            return [op["h"], op["hs"]]
        if o == "relabel":
            t.dense = True
            t.tok = object()
            if t.last != "out" and t.last is not None:
                t.last = "stale"
            return [op["h"]]
        if o == "copy":
            self.h.append(t.clone())
            return [op["h"], len(self.h) - 1]
        if o in ("dictRT", "update"):
            return [op["h"]]
        raise Illegal(f"unknown op {o}")


def abstract_run(ops, strict=True):
    """states after every op (canonical), or raises Illegal"""
    a = AbsSys(strict)
    out = []
    for op in ops:
        ch = a.apply(op)
        out.append({i: a.h[i].canon() for i in ch if i < len(a.h)})
    return out


# =========================================================================== generator
class Gen:
    def __init__(self, rnd, n, max_ops, outliers=True):
        self.rnd = rnd
        self.n = n
        self.max_ops = max_ops
        self.outliers = outliers
        self.a = AbsSys(strict=True)
        self.ops = []
        self.cur = 0

    def emit(self, op):
        self.a.apply(op)  # Illegal here is a generator bug
        self.ops.append(op)

    def full(self):
        return len(self.ops) >= self.max_ops

    def new_handle(self):
        return len(self.a.h) - 1

    def addr_of(self, nd):
        return {"dp": self.rnd.choice(nd[0])}

    # ---- scenarios
    def maybe_refresh(self, h):
        """what `TreeHolder` / the proposals do between placements: copy or dict round trip"""
        r = self.rnd.random()
        if r < 0.25:
            self.emit({"o": "copy", "h": h})
            return self.new_handle()
        if r < 0.45:
            self.emit({"o": "dictRT", "h": h, "pickle": self.rnd.random() < 0.4})
        return h

    def place(self, h, dp):
        """one SMC placement of `dp` on the (dense) tree `h`"""
        t = self.a.h[h]
        rnd = self.rnd
        r = rnd.random()
        if self.outliers and r < 0.15:
            self.emit({"o": "addDp", "h": h, "dp": dp, "to": "out"})
        elif t.f and r < 0.5:
            nd = rnd.choice(t.f) if rnd.random() < 0.8 else rnd.choice(t.nodes())[0]
            self.emit({"o": "addDp", "h": h, "dp": dp, "to": self.addr_of(nd)})
        else:
            k = rnd.randint(0, len(t.f))
            kids = rnd.sample(t.f, k)
            self.emit({"o": "create", "h": h, "kids": [self.addr_of(x) for x in kids], "dps": [dp]})

    def build(self, h, dps):
        """SMC: place `dps` one after the other, continuing on copies / round trips"""
        for dp in dps:
            if self.full():
                break
            h = self.maybe_refresh(h)
            self.place(h, dp)
        return h

    def sigma(self, t):
        """an order compatible with the tree: a clone's data after all data of its descendants"""
        rnd = self.rnd
        pend = {id(nd): len(nd[1]) for nd, _, _ in t.nodes()}
        ready = [(nd, par) for nd, par, _ in t.nodes() if not nd[1]]
        left = {id(nd): list(nd[0]) for nd, _, _ in t.nodes()}
        outs = list(t.o)
        order = []
        while ready or outs:
            if outs and (not ready or rnd.random() < 0.25):
                order.append(outs.pop(rnd.randrange(len(outs))))
                continue
            i = rnd.randrange(len(ready))
            nd, par = ready[i]
            l = left[id(nd)]
            order.append(l.pop(rnd.randrange(len(l))))
            if not l:
                ready.pop(i)
                if par is not None:
                    pend[id(par)] -= 1
                    if pend[id(par)] == 0:
                        ready.append((par, t.locate(par)[1]))
        return order

    def retained(self, src):
        """`ConditionalSMCSampler._get_constrained_path`: rebuild `src` on a fresh tree"""
        t = self.a.h[src]
        order = self.sigma(t)
        self.emit({"o": "fresh"})
        h = self.new_handle()
        seen = set()
        for dp in order:
            if self.full():
                break
            self.emit({"o": "copy", "h": h})
            h = self.new_handle()
            if dp in t.o:
                self.emit({"o": "addDp", "h": h, "dp": dp, "to": "out"})
                continue
            nd = t.find(dp)[0]
            if id(nd) in seen:
                first = next(d for d in nd[0] if d in self.a.h[h].all_dps())
                self.emit({"o": "addDp", "h": h, "dp": dp, "to": {"dp": first}})
            else:
                seen.add(id(nd))
                kids = []
                for k in nd[1]:
                    kids.append({"dp": next(d for d in k[0] if d in self.a.h[h].all_dps())})
                self.emit({"o": "createAdd", "h": h, "kids": kids, "dp": dp})
        return h

    def dp_move(self, h):
        """one candidate of `DataPointSampler._sample_tree`"""
        t = self.a.h[h]
        cand = [(d, nd) for nd, _, _ in t.nodes() if len(nd[0]) > 1 for d in nd[0]] + [(d, None) for d in t.o]
        if not cand:
            return h
        dp, nd = self.rnd.choice(cand)
        self.emit({"o": "copy", "h": h})
        h2 = self.new_handle()
        t2 = self.a.h[h2]
        if nd is None:
            self.emit({"o": "rmDp", "h": h2, "dp": dp, "from": "out"})
        else:
            other = self.rnd.choice([d for d in nd[0] if d != dp])
            self.emit({"o": "rmDp", "h": h2, "dp": dp, "from": {"dp": other}})
        targets = [x[0] for x in t2.nodes()]
        if self.outliers and (not targets or self.rnd.random() < 0.25):
            self.emit({"o": "addDp", "h": h2, "dp": dp, "to": "out"})
        elif targets:
            self.emit({"o": "addDp", "h": h2, "dp": dp, "to": self.addr_of(self.rnd.choice(targets))})
        else:  # nothing to add to: the sampler would not have offered this candidate; put it back
            self.emit({"o": "addDp", "h": h2, "dp": dp, "to": "out"})
        return h2 if self.rnd.random() < 0.7 else h

    def prune_regraft(self, h):
        """`PruneRegraphSampler`: copy, extract, remove, then graft on copies at several parents"""
        t = self.a.h[h]
        if len(t.nodes()) < 1:
            return h
        self.emit({"o": "copy", "h": h})
        p = self.new_handle()
        nd = self.rnd.choice(self.a.h[p].nodes())[0]
        self.emit({"o": "getSub", "h": p, "root": self.addr_of(nd)})
        s = self.new_handle()
        self.emit({"o": "rmSub", "h": p, "hs": s})
        rem = [x[0] for x in self.a.h[p].nodes()]
        parents = [self.addr_of(x) for x in rem] + ["root"]
        self.rnd.shuffle(parents)
        res = h
        for par in parents[: self.rnd.randint(1, 3)]:
            if self.full():
                break
            self.emit({"o": "copy", "h": p})
            n = self.new_handle()
            self.emit({"o": "addSub", "h": n, "hs": s, "par": par})
            self.emit({"o": "update", "h": n})
            res = n
        return res

    def subtree_move(self, h, rebuild=True):
        """`ParticleGibbsSubtreeSampler.sample_tree` (works on the tree it is given, in place)"""
        t = self.a.h[h]
        if not t.nodes():
            return h
        child = self.rnd.choice(t.nodes())
        root_nd = child[1]  # parent of the chosen clone (None: the virtual root)
        if root_nd is None:
            self.emit({"o": "getSub", "h": h, "root": "root"})
            s = self.new_handle()
            self.emit({"o": "rmSub", "h": h, "hs": s})
            par = "root"
        else:
            pp = t.locate(root_nd)[1]
            par = "root" if pp is None else self.addr_of(pp)
            self.emit({"o": "getSub", "h": h, "root": self.addr_of(root_nd)})
            s = self.new_handle()
            self.emit({"o": "rmSub", "h": h, "hs": s})
            for d in list(self.a.h[h].o):
                self.emit({"o": "rmOut", "h": h, "dp": d})
                self.emit({"o": "addDp", "h": s, "dp": d, "to": "out"})
        if rebuild and not self.full():
            # the conditional SMC rebuilds the subtree from its data points on fresh trees
            dps = self.sigma(self.a.h[s])
            self.emit({"o": "fresh"})
            g = self.build(self.new_handle(), dps)
        else:
            g = s
        res = h
        for _ in range(self.rnd.randint(1, 2)):
            self.emit({"o": "copy", "h": h})
            n = self.new_handle()
            self.emit({"o": "addSub", "h": n, "hs": g, "par": par})
            for d in self.a.h[g].o:
                self.emit({"o": "addDp", "h": n, "dp": d, "to": "out"})
            self.emit({"o": "update", "h": n})
            res = n
        return res

    def run(self):
        rnd = self.rnd
        dps = list(range(self.n))
        rnd.shuffle(dps)
        if rnd.random() < 0.2:  # `Tree.get_single_node_tree`
            self.emit({"o": "create", "h": 0, "kids": [], "dps": dps})
            self.emit({"o": "update", "h": 0})
            cur = 0
        else:
            cur = self.build(0, dps)
        full_trees = [cur]
        while not self.full():
            r = rnd.random()
            cur = rnd.choice(full_trees[-3:]) if rnd.random() < 0.3 else cur
            if r < 0.18:
                cur = self.dp_move(cur)
            elif r < 0.36:
                cur = self.prune_regraft(cur)
            elif r < 0.56:
                cur = self.subtree_move(cur, rebuild=rnd.random() < 0.75)
            elif r < 0.66:
                cur = self.retained(cur)
            elif r < 0.78:
                self.emit({"o": "relabel", "h": cur})
            elif r < 0.86:
                self.emit({"o": "copy", "h": cur})
                if rnd.random() < 0.5:
                    cur = self.new_handle()
            elif r < 0.94:
                self.emit({"o": "dictRT", "h": cur, "pickle": rnd.random() < 0.5})
            elif r < 0.97:
                self.emit({"o": "update", "h": cur})
            else:  # burn-in SMC from scratch
                self.emit({"o": "fresh"})
                d2 = list(range(self.n))
                rnd.shuffle(d2)
                cur = self.build(self.new_handle(), d2)
            if len(self.a.h[cur].all_dps()) == self.n:
                full_trees.append(cur)
        return self.ops


def gen_history(rnd, n, max_ops, outliers=True):
    """a history in the samplers' grammar"""
    return Gen(rnd, n, max_ops, outliers).run()


def gen_weird(rnd, n, max_ops):
    """a history with edits the samplers never make (correspondence only): a legal prefix, then edits
    drawn without the grammar's side conditions; ops that cannot be interpreted abstractly end it"""
    g = Gen(rnd, n, rnd.randint(2, max(3, max_ops // 2)), True)
    ops = g.run()
    a = AbsSys(strict=False)
    for op in ops:
        a.apply(op)
    extra = rnd.randint(1, max(2, max_ops - len(ops)))
    for _ in range(extra):
        h = rnd.randrange(len(a.h))
        t = a.h[h]
        nodes = [x[0] for x in t.nodes()]
        named = [x for x in nodes if x[0]]
        alld = t.all_dps()
        absent = [d for d in range(n) if d not in alld]
        kind = rnd.choice(["create0", "createRe", "empty", "rmStale", "dupGraft", "bad", "addLast", "norm", "norm", "rt"])
        op = None
        if kind == "create0":  # clone created empty and left so
            tops = [x for x in t.f if x[0]]
            kids = rnd.sample(tops, rnd.randint(0, len(tops)))
            op = {"o": "create", "h": h, "kids": [{"dp": rnd.choice(x[0])} for x in kids], "dps": []}
        elif kind == "createRe" and absent:  # name `num_nodes` may be a live name
            tops = [x for x in t.f if x[0]]
            kids = rnd.sample(tops, rnd.randint(0, len(tops)))
            op = {"o": "create", "h": h, "kids": [{"dp": rnd.choice(x[0])} for x in kids], "dps": [rnd.choice(absent)]}
        elif kind == "empty" and named:
            nd = rnd.choice(named)
            d = rnd.choice(nd[0])
            op = {"o": "rmDp", "h": h, "dp": d, "from": {"dp": d}}
        elif kind == "rmStale" and len(a.h) > 1:
            op = {"o": "rmSub", "h": h, "hs": rnd.randrange(len(a.h))}
        elif kind == "dupGraft" and len(a.h) > 1:
            par = "root" if not named or rnd.random() < 0.4 else {"dp": rnd.choice(rnd.choice(named)[0])}
            op = {"o": "addSub", "h": h, "hs": rnd.randrange(len(a.h)), "par": par}
        elif kind == "bad":
            c = rnd.randrange(6)
            if c == 0 and alld:
                op = {"o": "addDp", "h": h, "dp": rnd.choice(alld), "to": "out"}
            elif c == 1 and absent:
                op = {"o": "rmOut", "h": h, "dp": rnd.choice(absent)}
            elif c == 2 and named:
                deep = [x[0] for x in t.nodes() if x[1] is not None and x[0][0]]
                if deep:
                    op = {"o": "create", "h": h, "kids": [{"dp": rnd.choice(rnd.choice(deep)[0])}], "dps": []}
            elif c == 3 and absent:
                op = {"o": "getSub", "h": h, "root": {"dp": rnd.choice(absent)}}
            elif c == 4 and named:
                op = {"o": "getSub", "h": h, "root": {"par": {"dp": rnd.choice(rnd.choice(named)[0])}}}
            elif c == 5 and absent and named:
                op = {"o": "addDp", "h": h, "dp": rnd.choice(absent), "to": {"par": {"dp": rnd.choice(rnd.choice(named)[0])}}}
        elif kind == "addLast" and absent:
            op = {"o": "addDp", "h": h, "dp": rnd.choice(absent), "to": "last"}
        elif kind == "rt":
            op = {"o": rnd.choice(["dictRT", "copy", "relabel", "update"]), "h": h}
            if op["o"] == "dictRT":
                op["pickle"] = False
        elif kind == "norm":
            if absent and rnd.random() < 0.6:
                to = "out" if not named or rnd.random() < 0.3 else {"dp": rnd.choice(rnd.choice(named)[0])}
                op = {"o": "addDp", "h": h, "dp": rnd.choice(absent), "to": to}
            elif named:
                op = {"o": "getSub", "h": h, "root": {"dp": rnd.choice(rnd.choice(named)[0])}}
        if op is None:
            continue
        ops.append(op)
        try:
            a.apply(op)
        except Illegal:
            break  # both sides are expected to raise here (or the abstract state is meaningless)
    return ops


# =========================================================================== the real code
def logq(q):
    q = Fraction(q)
    return math.log(q.numerator) - math.log(q.denominator)


class Raised(Exception):
    pass


class Ambiguous(Exception):
    """a data point used as an address sits in more than one `_data` list (only after an out-of-grammar
    graft of data already present): which clone `labels` reports depends on dict order"""


class RealSys:
    def __init__(self, ds):
        self.ds = ds
        self.grid = ds.real[0].grid_size
        self.h = [Tree(self.grid)]

    def resolve(self, t, a):
        """-> node name, "root" for the virtual root; KeyError etc. propagate (the op raises)"""
        if a == "out":
            return t.outlier_node_name
        if a == "root":
            return t.root_node_name
        if a == "last":
            if t.node_last_added_to is None:
                raise KeyError("no last node")
            return t.node_last_added_to
        if "dp" in a:
            if sum(1 for v in t._data.values() for d in v if d.idx == a["dp"]) > 1:
                raise Ambiguous()
            return t.labels[a["dp"]]
        if "par" in a:
            n = self.resolve(t, a["par"])
            if n == t.root_node_name or n == t.outlier_node_name:
                raise KeyError("parent of a non-clone")
            return t.get_parent(n)
        raise ValueError(a)

    def clone_name(self, t, a):
        n = self.resolve(t, a)
        if n == t.root_node_name:
            raise KeyError("virtual root where a clone is needed")
        return n

    def apply(self, op):
        """returns handles possibly changed; raises Raised(exc) when the real code raises"""
        try:
            return self._apply(op)
        except Ambiguous:
            raise
        except (KeyError, IndexError, ValueError, AssertionError, AttributeError, TypeError) as e:
            raise Raised(f"{type(e).__name__}: {e}")
        except Exception as e:  # rustworkx errors etc.
            raise Raised(f"{type(e).__name__}: {e}")

    def _ginfo(self, f):
        """indices the graph-level op needs, read before the call (None: cannot be read, the call raises too)"""
        try:
            self.ginfo = f()
        except Exception:
            self.ginfo = None

    def _apply(self, op):
        o = op["o"]
        D = self.ds.real
        self.ginfo = {}
        if o == "fresh":
            self.h.append(Tree(self.grid))
            return [len(self.h) - 1]
        h = op["h"]
        t = self.h[h]
        if o == "create":
            kids = [self.clone_name(t, a) for a in op["kids"]]
            self._ginfo(lambda: {"kids": [t._node_indices[k] for k in kids]})
            t.create_root_node(children=kids, data=[D[i] for i in op["dps"]])
            return [h]
        if o == "createAdd":
            kids = [self.clone_name(t, a) for a in op["kids"]]
            self._ginfo(lambda: {"kids": [t._node_indices[k] for k in kids]})
            nn = t.create_root_node(children=kids)
            t.add_data_point_to_node(D[op["dp"]], nn)
            return [h]
        if o == "addDp":
            n = self.clone_name(t, op["to"])
            if n == t.outlier_node_name:
                t.add_data_point_to_outliers(D[op["dp"]])
            else:
                t.add_data_point_to_node(D[op["dp"]], n)
            return [h]
        if o == "rmDp":
            t.remove_data_point_from_node(D[op["dp"]], self.clone_name(t, op["from"]))
            return [h]
        if o == "rmOut":
            t.remove_data_point_from_outliers(D[op["dp"]])
            return [h]
        if o == "getSub":
            n = self.resolve(t, op["root"])
            if n == t.outlier_node_name:
                raise KeyError("subtree of the outlier node")
            self._ginfo(lambda: {"root": None if n == t.root_node_name else t._node_indices[n]})
            self.h.append(t.get_subtree(n))
            return [h, len(self.h) - 1]
        if o == "rmSub":
            sb = self.h[op["hs"]]

            def rm_info():
                same = sb.copy() == t.copy()  # the branch `remove_subtree` takes (compared on copies: `==` creates `_data` keys)
                return {"reinit": bool(same), "r": None if same else t._node_indices[sb.roots[0]]}

            self._ginfo(rm_info)
            t.remove_subtree(sb)
            return [h, op["hs"]]
        if o == "addSub":
            n = self.resolve(t, op["par"])
            if n == t.outlier_node_name:
                raise KeyError("graft under the outlier node")
            self._ginfo(lambda: {"p": t._node_indices[n], "sub_root": self.h[op["hs"]]._node_indices["root"]})
            t.add_subtree(self.h[op["hs"]], parent=None if n == t.root_node_name else n)
            return [h, op["hs"]]
        if o == "relabel":
            t.relabel_nodes()
            return [h]
        if o == "copy":
            self.h.append(t.copy())
            return [h, len(self.h) - 1]
        if o == "dictRT":
            d = t.to_dict()
            if op.get("pickle"):
                d = pickle.loads(pickle.dumps(d, protocol=pickle.HIGHEST_PROTOCOL))
            self.h[h] = Tree.from_dict(d)
            return [h]
        if o == "update":
            t.update()
            return [h]
        raise ValueError(o)


def snapshot(t):
    """everything observable of a real tree, read without touching the `defaultdict` (no key is created)"""
    g = t._graph
    root_idx = t._node_indices.get(t._ROOT_NODE_NAME)
    problems = []
    nodes = {}
    for idx in g.node_indices():
        nd = g[idx]
        if nd is None:
            problems.append(f"graph index {idx} has no payload")
            continue
        name = nd.node_id
        dl = t._data.get(name) if idx != root_idx else None
        nodes[idx] = {
            "idx": idx, "name": name, "dps": sorted(nd.data_points),
            "dlist": None if dl is None else [d.idx for d in dl],
            "p": nd.log_p.copy(), "r": nd.log_r.copy(),
            "kids": list(g.successor_indices(idx)), "indeg": g.in_degree(idx),
            "n2i": t._node_indices.get(name), "i2n": t._node_indices_rev.get(idx),
        }
    data = {}
    for k, v in t._data.items():
        data[k] = [d.idx for d in v]
    return {
        "root_idx": root_idx, "nodes": nodes, "problems": problems,
        "nodeIdx": dict(t._node_indices), "nodeIdxRev": dict(t._node_indices_rev),
        "data": data, "last": t._last_node_added_to, "grid": tuple(t.grid_size),
        "edges": [tuple(e) for e in g.edge_list()],
    }


def same_snapshot(a, b):
    """bit-for-bit equality of two snapshots (aliasing check for handles an op does not mention)"""
    if a["root_idx"] != b["root_idx"] or a["nodeIdx"] != b["nodeIdx"] or a["nodeIdxRev"] != b["nodeIdxRev"]:
        return "maps"
    if a["data"] != b["data"] or a["last"] != b["last"]:
        return "data"
    if set(a["nodes"]) != set(b["nodes"]):
        return "graph"
    for i, x in a["nodes"].items():
        y = b["nodes"][i]
        for k in ("name", "dps", "dlist", "kids", "indeg", "n2i", "i2n"):
            if x[k] != y[k]:
                return "graph" if k in ("kids", "indeg") else "payload"
        if not (np.array_equal(x["p"], y["p"]) and np.array_equal(x["r"], y["r"])):
            return "vectors"
    return None


def forest_of(snap):
    """(nested structure from the real graph, problems): node = dict(rec=..., kids=[...])"""
    probs = list(snap["problems"])
    nodes, root = snap["nodes"], snap["root_idx"]
    if root is None or root not in nodes:
        return None, probs + ["no virtual root"]
    seen = set()

    def go(i):
        if i in seen:
            probs.append(f"graph index {i} reached twice")
            return None
        seen.add(i)
        if i not in nodes:
            probs.append(f"edge to missing index {i}")
            return None
        kids = [go(c) for c in nodes[i]["kids"]]
        return {"rec": nodes[i], "kids": [k for k in kids if k is not None]}

    top = go(root)
    un = set(nodes) - seen
    if un:
        probs.append(f"unreachable graph indices {sorted(un)}")
    for i, x in nodes.items():
        if i == root:
            if x["indeg"] != 0:
                probs.append("virtual root has a parent")
        elif x["indeg"] != 1:
            probs.append(f"clone {x['name']!r} has {x['indeg']} parents")
    return top, probs


def wf_problems(snap):
    """C07 oracle on one real tree (independent of the Lean model): list of violated clauses"""
    top, probs = forest_of(snap)
    nodes, root = snap["nodes"], snap["root_idx"]
    clones = [x for i, x in nodes.items() if i != root]
    names = [x["name"] for x in clones]
    if len(set(names)) != len(names):
        probs.append(f"duplicate clone names {sorted(names, key=str)}")
    if root in nodes:
        r = nodes[root]
        if r["name"] != "root" or r["n2i"] != root or r["i2n"] != "root":
            probs.append("virtual root not registered as 'root'")
        if r["dps"]:
            probs.append("virtual root holds data")
    if snap["data"].get("root"):
        probs.append("_data['root'] not empty")
    for x in clones:
        if x["name"] == "root" or x["name"] == -1 or not isinstance(x["name"], (int, np.integer)):
            probs.append(f"clone with reserved / non-integer name {x['name']!r}")
        if x["n2i"] != x["idx"]:
            probs.append(f"name {x['name']!r} maps to index {x['n2i']} but sits at {x['idx']}")
        if x["i2n"] != x["name"]:
            probs.append(f"index {x['idx']} maps to name {x['i2n']!r} but payload is {x['name']!r}")
        dl = x["dlist"] or []
        if sorted(dl) != x["dps"]:
            probs.append(f"clone {x['name']!r}: _data {dl} vs payload {x['dps']}")
    if set(snap["nodeIdx"]) != set(names) | {"root"}:
        probs.append(f"_node_indices keys {sorted(snap['nodeIdx'], key=str)} vs names {sorted(names, key=str)}")
    if set(snap["nodeIdxRev"]) != set(nodes):
        probs.append(f"_node_indices_rev keys {sorted(snap['nodeIdxRev'])} vs graph {sorted(nodes)}")
    extra = set(snap["data"]) - set(names) - {-1, "root"}
    if extra:
        probs.append(f"_data keys for unknown nodes {sorted(extra, key=str)}")
    alld = [d for k, v in snap["data"].items() for d in v]
    if len(alld) != len(set(alld)):
        probs.append(f"data point listed twice {sorted(alld)}")
    pay = [d for x in clones for d in x["dps"]]
    if len(pay) != len(set(pay)) or set(pay) & set(snap["data"].get(-1, [])):
        probs.append("data point in two places (payloads)")
    return probs


def plain_forest(top):
    def go(nd):
        return [list(nd["rec"]["dps"]), [go(k) for k in nd["kids"]]]

    return canon_forest([go(k) for k in top["kids"]])


# --------------------------------------------------------------------------- C06 oracle
def exact_vectors(ds, dps, kid_rs):
    """exact p and r of a clone from its data and its children's exact r (Fractions)"""
    G, S = ds.G, ds.S
    prior = Fraction(1, G)
    p = [[prior * math.prod((ds.vals[i][s][g] for i in dps), start=Fraction(1)) for g in range(G)] for s in range(S)]
    r = []
    for s in range(S):
        D = [Fraction(1)] + [Fraction(0)] * (G - 1)
        for kr in kid_rs:
            D = [sum(D[j] * kr[s][k - j] for j in range(k + 1)) for k in range(G)]
        acc, row = Fraction(0), []
        for k in range(G):
            acc += D[k]
            row.append(p[s][k] * acc)
        r.append(row)
    return p, r


def cache_problems(ds, snap, tol, reported=False):
    """C06 oracle on one real tree: cached vectors vs an exact from-scratch recomputation along an
    independent traversal.  Returns (problems, exact root vector or None).  `reported`: recompute from the
    assignment the tree reports (`_data[name]`, what `labels` / `node_data` / `to_dict` give out) instead of the
    data-point set kept on the node payload; the two coincide on every tree the unchanged code can reach (C07)."""
    top, probs = forest_of(snap)
    if top is None or probs:
        return ["graph is not a forest: " + "; ".join(probs[:2])], None
    out = []

    def cmp(arr, ex, what):
        for s in range(ds.S):
            for k in range(ds.G):
                if not (abs(arr[s, k] - logq(ex[s][k])) <= tol):
                    out.append(f"{what}[{s},{k}] cached {float(arr[s, k])!r} rebuilt {logq(ex[s][k])!r}")
                    return

    def go(nd):
        krs = [go(k) for k in nd["kids"]]
        rec = nd["rec"]
        dps = rec["dps"] if not reported or rec["dlist"] is None else sorted(rec["dlist"])
        p, r = exact_vectors(ds, dps, krs)
        if reported and dps != rec["dps"]:
            cmp(rec["p"], p, f"clone {rec['name']!r} reported to hold {dps} log_p")
            return r
        cmp(rec["p"], p, f"clone {rec['dps']} log_p")
        cmp(rec["r"], r, f"clone {rec['dps']} log_r")
        return r

    krs = [go(k) for k in top["kids"]]
    _, rr = exact_vectors(ds, [], krs)
    if top["kids"]:
        cmp(top["rec"]["r"], rr, "virtual root log_r")
    return out, rr


# =========================================================================== model vs code
def _mkey(nd):
    return (tuple(sorted(nd["dps"])), tuple(sorted(_mkey(k) for k in nd["kids"])))


def _rkey(nd):
    return (tuple(nd["rec"]["dps"]), tuple(sorted(_rkey(k) for k in nd["kids"])))


def compare_dump(ds, md, snap, tol, dens=None, sync=True, lastsync=True):
    """model dump `md` (one handle) vs snapshot of the real tree; returns (list of differences, info)"""
    diffs = []
    info = {"ident": True}
    top, probs = forest_of(snap)
    if top is None or probs:
        return ["real graph is not a forest (the model's always is): " + "; ".join(probs[:3])], info
    pairs = []
    mdata0 = {k: v for k, v in md["data"]}

    def match(mk, rk, where):
        # equal shapes (only with duplicated / empty clones, outside the grammar): break ties by the `_data` list
        ms = sorted(mk, key=lambda x: (_mkey(x), tuple(mdata0.get(x["name"]) or ())))
        rs = sorted(rk, key=lambda x: (_rkey(x), tuple(x["rec"]["dlist"] or ())))
        if [_mkey(x) for x in ms] != [_rkey(x) for x in rs]:
            diffs.append(f"shape below {where}: model {[_mkey(x) for x in ms]} code {[_rkey(x) for x in rs]}")
            return
        for m, r in zip(ms, rs):
            pairs.append((m, r["rec"]))
            match(m["kids"], r["kids"], sorted(m["dps"]))

    match(md["forest"], top["kids"], "root")
    if diffs:
        return diffs, info
    mdata = {k: v for k, v in md["data"]}
    mni = {k: v for k, v in md["nodeIdx"]}
    mnir = {k: v for k, v in md["nodeIdxRev"]}

    def cmpv(arr, mv, what):
        for s in range(ds.S):
            for k in range(ds.G):
                q = Fraction(mv[s][k])
                if q <= 0:
                    diffs.append(f"{what}[{s},{k}] model value {q} not positive")
                    return
                if not (abs(arr[s, k] - logq(q)) <= tol):
                    diffs.append(f"{what}[{s},{k}] code {float(arr[s, k])!r} model {logq(q)!r}")
                    return

    for m, r in pairs:
        if m["name"] != r["name"]:
            info["ident"] = False
        if mdata.get(m["name"]) != r["dlist"]:
            diffs.append(f"clone {m['dps']}: _data model {mdata.get(m['name'])} code {r['dlist']}")
        if (mni.get(m["name"]) == m["idx"]) != (r["n2i"] == r["idx"]):
            diffs.append(f"clone {m['dps']}: name->index consistency model {mni.get(m['name']) == m['idx']} code {r['n2i'] == r['idx']}")
        if (mnir.get(m["idx"]) == m["name"]) != (r["i2n"] == r["name"]):
            diffs.append(f"clone {m['dps']}: index->name consistency differs")
        cmpv(r["p"], m["p"], f"clone {m['dps']} log_p")
        cmpv(r["r"], m["r"], f"clone {m['dps']} log_r")
    if pairs:
        cmpv(top["rec"]["r"], md["rootR"], "virtual root log_r")
    mnames = sorted(m["name"] for m, _ in pairs)
    rnames = sorted(r["name"] for _, r in pairs)
    if len(mni) != len(md["nodeIdx"]) or len(mnir) != len(md["nodeIdxRev"]) or len(mdata) != len(md["data"]):
        diffs.append("model association list has a duplicate key")
    rni = sorted(k for k in snap["nodeIdx"] if k != "root")
    rnir = sorted(v for k, v in snap["nodeIdxRev"].items() if v != "root")
    mkeys = sorted(k for k, v in mdata.items() if not (k == -1 and not v))
    rkeys = sorted(k for k, v in snap["data"].items() if k != "root" and not (k == -1 and not v))
    # sizes of the maps are independent of how names were handed out
    if (len(mni), len(mnir), len(mkeys)) != (len(rni), len(rnir), len(rkeys)):
        diffs.append(f"map sizes (name->index, index->name, _data): model {(len(mni), len(mnir), len(mkeys))} code {(len(rni), len(rnir), len(rkeys))}")
    if sync:  # the set of names is expected to be the same on both sides
        if mnames != rnames:
            diffs.append(f"name sets: model {mnames} code {rnames}")
        if sorted(mni) != rni:
            diffs.append(f"_node_indices keys: model {sorted(mni)} code {rni}")
        if sorted(mnir.values()) != rnir:
            diffs.append(f"_node_indices_rev values: model {sorted(mnir.values())} code {rnir}")
        if mkeys != rkeys:
            diffs.append(f"_data keys: model {mkeys} code {rkeys}")
    if len(md.get("dictEdges", snap["edges"])) != len(snap["edges"]):
        diffs.append(f"dict form: model has {len(md['dictEdges'])} edges, to_dict()['graph'] {len(snap['edges'])}")
    if mdata.get(-1, []) != snap["data"].get(-1, []):
        diffs.append(f"outliers: model {mdata.get(-1, [])} code {snap['data'].get(-1, [])}")
    if info["ident"] and sync:
        for k in mkeys:
            if k in snap["data"] and mdata[k] != snap["data"][k]:
                diffs.append(f"_data[{k}]: model {mdata[k]} code {snap['data'][k]}")
    if lastsync and md["last"] != snap["last"]:
        diffs.append(f"last: model {md['last']} code {snap['last']}")
    if (md["last"] is None) != (snap["last"] is None) or (md["last"] == -1) != (snap["last"] == -1):
        diffs.append(f"last (kind): model {md['last']} code {snap['last']}")
    if dens is not None:
        for nm, key in (("log_p_one", "pOne"), ("log_p", "pMarg")):
            q = Fraction(md[key])
            if q <= 0 or not (abs(dens[nm] - logq(q)) <= tol * 10):
                diffs.append(f"{nm}: code {dens[nm]!r} model {logq(q) if q > 0 else q!r}")
    return diffs, info


def densities(t, alpha):
    """both joint log-densities of a real tree, computed on a copy (reading them creates `_data` keys)"""
    c = t.copy()
    td = make_tree_dist(alpha)
    return {"log_p": float(td.log_p(c)), "log_p_one": float(td.log_p_one(c))}


def rebuilt_densities(ds, forest, outs, alpha):
    t = build_tree(ds.real, forest, outs)
    td = make_tree_dist(alpha)
    return {"log_p": float(td.log_p(t)), "log_p_one": float(td.log_p_one(t))}


def clear_caches():
    """the memoised `compute_log_S` / `_convolve_two_children` are keyed by array content, not shape: within
    one run the grid shape is fixed, across the harness's cases it is not (memoisation itself is C14's)"""
    from phyclone.tree.utils import compute_log_S, _convolve_two_children
    from phyclone.utils.dev import clear_proposal_dist_caches

    clear_proposal_dist_caches()
    for fn in (compute_log_S, _convolve_two_children):
        if hasattr(fn, "cache_clear"):
            fn.cache_clear()


# =========================================================================== graph-level correspondence
class GraphSkip(Exception):
    """the graph-level op cannot be reconstructed (reason in args[0])"""


def _reach(snap, r):
    seen, todo = [], [r]
    while todo:
        i = todo.pop()
        if i in seen or i not in snap["nodes"]:
            continue
        seen.append(i)
        todo.extend(snap["nodes"][i]["kids"])
    return seen


def _gkey(snap, i, names, depth=0):
    nd = snap["nodes"].get(i)
    if nd is None or depth > 64:
        return ("?",)
    return ((repr(nd["name"]) if names else ""), tuple(nd["dps"]), tuple(sorted(_gkey(snap, c, names, depth + 1) for c in nd["kids"])))


def _iso(sa, ka, sb, kb, names, out, depth=0):
    """pair the trees below the nodes `ka` of snapshot `sa` with those below `kb` of `sb` (children matched by
    their recursive key: payload data, optionally names, shape); equal keys = isomorphic subtrees, any pairing
    of those gives the same edge set.  False when the shapes differ."""
    if depth > 64:
        return False
    xa = sorted(ka, key=lambda i: _gkey(sa, i, names))
    xb = sorted(kb, key=lambda i: _gkey(sb, i, names))
    if [_gkey(sa, i, names) for i in xa] != [_gkey(sb, i, names) for i in xb]:
        return False
    for a, b in zip(xa, xb):
        out.append((a, b))
        if not _iso(sa, sa["nodes"][a]["kids"], sb, sb["nodes"][b]["kids"], names, out, depth + 1):
            return False
    return True


def graph_op(op, info, before, after, nh):
    """the graph-level op (`lean/PhyModel/Model/Graph.lean`, `GOp`) that a store op amounts to, with the node indices
    rustworkx handed out read off the real graphs (`before` / `after`: snapshots per handle)"""
    o, h = op["o"], op.get("h")
    if o == "fresh":
        return {"o": "fresh"}, [nh]
    if info is None:
        raise GraphSkip("indices not readable before the call")
    if o in ("addDp", "rmDp", "rmOut", "relabel", "update"):
        return {"o": "same", "h": h}, [h]
    if o in ("create", "createAdd"):
        new = sorted(set(after[h]["nodes"]) - set(before[h]["nodes"]))
        if len(new) != 1:
            raise GraphSkip(f"create_root_node added the node indices {new}")
        return {"o": "create", "h": h, "new": new[0], "kids": list(info["kids"])}, [h]
    if o == "copy" or (o == "getSub" and info.get("root") is None):
        return {"o": "copy", "h": h}, [h, nh]
    if o == "getSub":
        r = info["root"]
        D = sorted(_reach(before[h], r))
        rank = {d: k for k, d in enumerate(D)}  # `subgraph` numbers its nodes 0, 1, ... in increasing order of the old index
        sb = after[nh]
        pairs = []
        if sb["root_idx"] is None or not _iso(before[h], [r], sb, sb["nodes"].get(sb["root_idx"], {"kids": []})["kids"], True, pairs):
            raise GraphSkip("get_subtree: the new tree is not isomorphic to the subtree")
        return {"o": "getSub", "h": h, "r": r, "m1": [[d, k] for d, k in rank.items()], "m2": [[rank[a], b] for a, b in pairs]}, [h, nh]
    if o == "rmSub":
        if info["reinit"]:
            return {"o": "reinit", "h": h}, [h]
        return {"o": "rmSub", "h": h, "r": info["r"]}, [h]
    if o == "addSub":
        hs = op["hs"]
        sub = before[hs]
        p = info["p"]
        newset = set(after[h]["nodes"]) - set(before[h]["nodes"])
        pairs = []
        pk = [c for c in after[h]["nodes"].get(p, {"kids": []})["kids"] if c in newset]
        if not _iso(sub, sub["nodes"][info["sub_root"]]["kids"], after[h], pk, False, pairs) or {b for _, b in pairs} != newset:
            raise GraphSkip("add_subtree: the new nodes are not a copy of the grafted tree")
        dummy = 1 + max(list(after[h]["nodes"]) + list(before[h]["nodes"]) + list(sub["nodes"]))  # removed again: any unused index
        return {"o": "addSub", "h": h, "hs": hs, "p": p, "m": [[info["sub_root"], dummy]] + [[a, b] for a, b in pairs]}, [h]
    if o == "dictRT":
        return {"o": "fromDict", "h": h, "edges": [list(e) for e in before[h]["edges"]], "live": sorted(before[h]["nodeIdxRev"])}, [h]
    raise GraphSkip(f"unknown op {o}")


def _dup_names(snap):
    names = [x["name"] for i, x in snap["nodes"].items() if i != snap["root_idx"]]
    return len(set(names)) != len(names)


def graph_check(ctx, case, gtrace, grammar):
    """second pass: the graph-level history with the real indices injected is run on the digraph model and compared
    after every op with the real graph: live set and edge multiset exactly, `isForestB` with the shape oracle"""
    ops = [e["gop"] for e in gtrace if "gop" in e]
    if not ops:
        return
    steps = ctx.ask({"op": "graph", "ops": ops})["steps"]
    ctx.stat("graph_ops", len(ops))
    for j, e in enumerate(gtrace):
        k, o = e["k"], e["o"]
        if "gop" not in e:
            if e.get("fail"):
                ctx.corr_fail(case, f"graph model: op {k} {o}: {e['skip']}", None)
            else:
                ctx.stat("graph_truncated_" + e["skip"].split(":")[0].replace(" ", "_")[:30])
            return
        if j >= len(steps) or steps[j] is None:
            ctx.corr_fail(case, f"graph model: op {k} {o}: the model says rustworkx raises, it does not", e["gop"])
            return
        if grammar and not steps[j]["legal"]:
            ctx.corr_fail(case, f"graph model: op {k} {o} of a sampler-grammar history is outside GLegal", e["gop"])
            return
        dumps = {d["h"]: d for d in steps[j]["dumps"]}
        for h, (nodes, edges, shape_ok) in e["real"].items():
            d = dumps.get(h)
            if d is None:
                ctx.corr_fail(case, f"graph model: op {k} {o}: no model graph for handle {h}", None)
                return
            mn, me = sorted(d["nodes"]), sorted(tuple(x) for x in d["edges"])
            if mn != nodes or me != edges:
                ctx.corr_fail(case, f"graph model: op {k} {o}: handle {h}: live set / edge set differ",
                              {"model": {"nodes": mn, "edges": me}, "code": {"nodes": nodes, "edges": edges}, "gop": e["gop"]})
                return
            if d["forest"] != shape_ok:
                ctx.corr_fail(case, f"graph model: op {k} {o}: handle {h}: isForestB {d['forest']} but the shape oracle says {shape_ok}", None)
                return
        ctx.stat("graph_op_" + e["gop"]["o"])


# =========================================================================== one case
def run_case(ctx, case, want):
    """Runs one history on the real code, compares with the model after every op and evaluates the
    oracles `want` (subset of {"C06", "C07"}) when the history is in the samplers' grammar; then the
    graph-level correspondence (`graph_check`).  Returns a small summary dict."""
    gtrace = [] if (ctx.lean is not None and not case.get("no_model")) else None
    summ = _run_case(ctx, case, want, gtrace)
    if gtrace:
        graph_check(ctx, case, gtrace, case.get("stream", "grammar") == "grammar")
    return summ


def _run_case(ctx, case, want, gtrace):
    clear_caches()
    ds = DataSet.from_json(case["data"])
    alpha = Fraction(case["alpha"])
    ops = case["ops"]
    grammar = case.get("stream", "grammar") == "grammar"
    use_model = ctx.lean is not None and not case.get("no_model")
    steps = None
    if use_model:
        steps = ctx.ask({"op": "store", "data": case["data"], "alpha": case["alpha"], "ops": ops})["steps"]
    real = RealSys(ds)
    absys = AbsSys(strict=True) if grammar else None
    snaps = {0: snapshot(real.h[0])}
    # what is known about names: ident = every clone carries the same name on both sides (last dump);
    # sync = the *set* of names is the same; lsync = `_last_node_added_to` is the same value
    ident, sync, lsync = {0: True}, {0: True}, {0: True}
    summ = {"ops": 0, "raised": False, "nonident": 0, "max_handles": 1, "truncated": False}

    def ofail(pid, what, site, sig, detail):
        if pid in want:
            ctx.oracle_fail(case, what, site, sig, detail)

    for k, op in enumerate(ops):
        tol = TOL0 + DRIFT * (k + 1)
        exp = None
        if absys is not None:
            try:
                ch = absys.apply(op)
                exp = {i: absys.h[i].canon() for i in ch}
            except Illegal as e:
                ctx.corr_fail(case, f"op {k} is outside the sampler grammar (harness generator error)", str(e))
                return summ
        raised = None
        try:
            touched = real.apply(op)
        except Ambiguous:
            ctx.stat("truncated_ambiguous_address")
            summ["truncated"] = True
            return summ
        except Raised as e:
            raised = str(e)
        mstep = steps[k] if steps is not None and k < len(steps) else None
        if steps is not None and k >= len(steps):
            ctx.corr_fail(case, f"model stopped before op {k}", None)
            return summ
        if raised is not None:
            summ["raised"] = True
            ctx.stat("op_raised_" + op["o"])
            if steps is not None and mstep is not None:
                ctx.corr_fail(case, f"op {k} {op['o']}: the code raises, the model does not", raised)
            if grammar:
                ofail("C07", f"op {k} {op['o']} of a sampler-grammar history raised", "Tree." + op["o"], "raises", raised)
            return summ
        if steps is not None and mstep is None:
            ctx.corr_fail(case, f"op {k} {op['o']}: the model says the code raises, it does not", op)
            return summ
        summ["ops"] += 1
        ctx.stat("op_" + op["o"])
        o, hh, nh = op["o"], op.get("h"), len(real.h) - 1
        if o == "fresh":
            ident[nh], sync[nh], lsync[nh] = True, True, True
        elif o in ("create", "createAdd"):
            lsync[hh] = True
        elif o == "addDp":
            lsync[hh] = True if op["to"] == "out" else ident[hh]
        elif o == "relabel":
            sync[hh] = True
        elif o == "copy" or (o == "getSub" and op["root"] == "root"):
            ident[nh], sync[nh], lsync[nh] = ident[hh], sync[hh], lsync[hh]
        elif o == "getSub":
            ident[nh], sync[nh], lsync[nh] = ident[hh], ident[hh], True
        elif o == "rmSub":
            if real.h[hh].get_number_of_nodes() == 0:
                sync[hh], lsync[hh] = True, (lsync[hh] or real.h[hh]._last_node_added_to is None)
            else:
                sync[hh] = sync[hh] and ident[hh]
        elif o == "addSub":
            sync[hh] = sync[hh] and sync[op["hs"]]
            lsync[hh] = lsync[op["hs"]]
        summ["max_handles"] = max(summ["max_handles"], len(real.h))
        # handles the op does not mention must not change at all (aliasing)
        new = {}
        for i, t in enumerate(real.h):
            s = snapshot(t)
            if i in snaps and i not in touched:
                d = same_snapshot(snaps[i], s)
                if d:
                    pid = "C06" if d == "vectors" else "C07"
                    ofail(pid, f"op {k} {op['o']} on handle {op.get('h')} changed the {d} of untouched handle {i}",
                          "Tree." + op["o"], "aliasing-" + d, None)
                    if steps is not None:
                        ctx.corr_fail(case, f"op {k}: untouched handle {i} changed ({d})", None)
            new[i] = s
        changed = [i for i in new if i not in snaps or same_snapshot(snaps[i], new[i])]
        if gtrace is not None and not (gtrace and "gop" not in gtrace[-1]):
            try:
                if not grammar and any(_dup_names(new[i]) for i in touched if i in new):
                    raise GraphSkip("duplicate clone names: the graph model assumes the name a method looks up sits at one index")
                gop, hs_ = graph_op(op, real.ginfo, snaps, new, len(real.h) - 1)
                gtrace.append({"k": k, "o": op["o"], "gop": gop, "real": {
                    i: (sorted(new[i]["nodes"]), sorted(new[i]["edges"]), not forest_of(new[i])[1]) for i in hs_ if i in new}})
            except GraphSkip as e:
                gtrace.append({"k": k, "o": op["o"], "skip": str(e), "fail": grammar or not str(e).startswith("duplicate")})
        snaps = new
        mdumps = {d["h"]: d["s"] for d in mstep["dumps"]} if mstep is not None else {}
        if mstep is not None and mstep["n"] != len(real.h):
            ctx.corr_fail(case, f"op {k}: number of handles model {mstep['n']} code {len(real.h)}", None)
            return summ
        for i in sorted(set(changed) | set(mdumps)):
            snap = snaps[i]
            wfp = wf_problems(snap)
            top, gp = forest_of(snap)
            cp, _ = cache_problems(ds, snap, tol) if not gp else (["graph broken"], None)
            clean = not wfp and all(x["dps"] for j, x in snap["nodes"].items() if j != snap["root_idx"])
            dens = None
            if clean:
                try:
                    dens = densities(real.h[i], alpha)
                except Exception as e:
                    dens = None
                    if grammar:
                        ofail("C06", f"op {k}: density of handle {i} raised", "TreeJointDistribution", "raises", repr(e))
            if grammar:
                if wfp:
                    ofail("C07", f"after op {k} {op['o']}: handle {i} not well-formed: {wfp[0]}", "Tree." + op["o"], "wf", wfp[:4])
                if exp is not None and i in exp and not gp:
                    got = (plain_forest(top), sorted(snap["data"].get(-1, [])))
                    if [got[0], got[1]] != [exp[i][0], exp[i][1]]:
                        ofail("C07", f"after op {k} {op['o']}: handle {i} is not the tree the edit should give",
                              "Tree." + op["o"], "shape", {"got": got, "expected": exp[i]})
                if cp and not gp:
                    ofail("C06", f"after op {k} {op['o']}: handle {i}: {cp[0]}", "Tree." + op["o"], "stale-vector", cp[:4])
                elif not gp and any(x["dlist"] is not None and sorted(x["dlist"]) != x["dps"]
                                    for j, x in snap["nodes"].items() if j != snap["root_idx"]):
                    cpr, _ = cache_problems(ds, snap, tol, reported=True)
                    if cpr:
                        ofail("C06", f"after op {k} {op['o']}: handle {i}: {cpr[0]}", "Tree." + op["o"], "stale-vs-reported", cpr[:4])
                if dens is not None and not cp:
                    rb = rebuilt_densities(ds, plain_forest(top), sorted(snap["data"].get(-1, [])), alpha)
                    for nm in ("log_p", "log_p_one"):
                        if not (abs(rb[nm] - dens[nm]) <= 10 * tol):
                            ofail("C06", f"after op {k} {op['o']}: handle {i}: {nm} {dens[nm]!r} vs rebuilt {rb[nm]!r}",
                                  "TreeJointDistribution." + nm, "density", None)
            if i in mdumps and gp and not grammar:
                # outside the grammar the real rustworkx graph can stop being a forest (e.g. `create_root_node` on an
                # extracted subtree whose names are not dense, then `get_subtree`): the payload-forest store model cannot
                # represent that state, and no property quantifies over such histories - stop comparing this history here
                summ["truncated"] = True
                ctx.stat("weird_truncated_nonforest")
                return summ
            if i in mdumps:
                md = mdumps[i]
                diffs, info = compare_dump(ds, md, snap, tol, dens, sync.get(i, True), lsync.get(i, True))
                ident[i] = info["ident"]
                ctx.stat("dump_ident" if info["ident"] else "dump_nonident")
                ctx.stat("dump_sync" if sync.get(i, True) else "dump_nosync")
                if not diffs:
                    if md["wf"] != (not wfp):
                        diffs.append(f"well-formedness: model wfB {md['wf']} code oracle {wfp[:2]}")
                    if not gp and md["cacheOK"] != (not cp):
                        diffs.append(f"cache validity: model cacheOKB {md['cacheOK']} code oracle {cp[:2]}")
                if diffs:
                    ctx.corr_fail(case, f"op {k} {op['o']}: handle {i}: {diffs[0]}", diffs[:5])
                    return summ
                if not info["ident"]:
                    summ["nonident"] += 1
                    if not grammar:
                        summ["truncated"] = True  # names differ by a bijection: name-sensitive corruption may now differ
                        ctx.stat("weird_truncated_nonident")
                        return summ
    return summ


# =========================================================================== shrinking
CREATES = ("fresh", "copy", "getSub")


def drop_op(ops, i):
    """history without op i; when op i creates a handle, the ops that use that handle go too and
    later handle numbers move down"""
    if ops[i]["o"] not in CREATES:
        return ops[:i] + ops[i + 1:]
    hid = 1 + sum(1 for o in ops[:i] if o["o"] in CREATES)
    out = list(ops[:i])
    for o in ops[i + 1:]:
        if o.get("h") == hid or o.get("hs") == hid:
            continue
        o2 = dict(o)
        for k in ("h", "hs"):
            if k in o2 and o2[k] > hid:
                o2[k] -= 1
        out.append(o2)
    return out


def merge_copy(ops, i):
    """history without the `copy` at i, the copy's later uses redirected to the tree it was copied from"""
    hid = 1 + sum(1 for o in ops[:i] if o["o"] in CREATES)
    src = ops[i]["h"]
    out = list(ops[:i])
    for o in ops[i + 1:]:
        o2 = dict(o)
        for k in ("h", "hs"):
            if k in o2:
                o2[k] = src if o2[k] == hid else o2[k] - 1 if o2[k] > hid else o2[k]
        out.append(o2)
    return out


def shrink_ops(case, still_fails, max_tries=600):
    """remove ops (the tail, then single ops with their dependants, to a fixpoint) while `still_fails(case)`"""
    ops = list(case["ops"])
    strict = case.get("stream", "grammar") == "grammar"
    tries = [0]

    def ok(cand):
        tries[0] += 1
        if strict:
            try:
                abstract_run(cand, strict=True)
            except Illegal:
                return False
        return still_fails(dict(case, ops=cand))

    # the failure is reported at one op: everything after it is irrelevant
    lo, hi = 1, len(ops)
    while lo < hi and tries[0] < max_tries:
        mid = (lo + hi) // 2
        if ok(ops[:mid]):
            hi = mid
        else:
            lo = mid + 1
    ops = ops[:hi]
    progress = True
    while progress and tries[0] < max_tries:
        progress = False
        i = len(ops) - 1
        while i >= 0 and tries[0] < max_tries:
            cands = [drop_op(ops, i)] + ([merge_copy(ops, i)] if ops[i]["o"] == "copy" else [])
            for cand in cands:
                if len(cand) < len(ops) and ok(cand):
                    ops = cand
                    progress = True
                    break
            i = min(i - 1, len(ops) - 1)
    return dict(case, ops=ops)


# =========================================================================== cases shared by C06 / C07 / C15
def directed_prune_graft(rnd):
    """what the sub-tree sampler does, in its sharpest form: build a tree in a random creation order (so low and high
    names may both survive outside a sub-tree), prune a sub-tree, rebuild its data as a FRESH smaller tree (names 0..j-1) and graft the rebuild at
    every place of the pruned tree.  A fresh name that collides with a surviving one needs exactly this shape."""
    k = rnd.randint(3, 7)
    ops, roots, kidsof = [], [], {}
    for i in range(k):
        kids = [r for r in roots if rnd.random() < 0.45]
        kidsof[i] = kids
        ops.append({"o": "create", "h": 0, "kids": [{"dp": r} for r in kids], "dps": [i]})
        roots = [r for r in roots if r not in kids] + [i]

    def below(i):
        return [i] + [x for c in kidsof[i] for x in below(c)]

    cands = [i for i in range(k) if len(below(i)) < k]
    big = [i for i in cands if len(below(i)) >= 2]
    top = rnd.choice(big if big and rnd.random() < 0.8 else cands)
    gone = below(top)
    m = len(gone)
    if rnd.random() < 0.5:
        ops.append({"o": "relabel", "h": 0})  # names in the order `relabel_nodes` gives instead of creation order
    ops.append({"o": "copy", "h": 0})  # h1
    ops.append({"o": "getSub", "h": 1, "root": {"dp": top}})  # h2
    ops.append({"o": "rmSub", "h": 1, "hs": 2})
    ops.append({"o": "fresh"})  # h3
    j = rnd.randint(1, m)
    dps = list(gone)
    rnd.shuffle(dps)
    groups = [[d] for d in dps[:j]]
    for d in dps[j:]:
        rnd.choice(groups).append(d)
    roots = []
    for gi, g in enumerate(groups):
        kids = list(roots) if gi == j - 1 else [r for r in roots if rnd.random() < 0.5]
        ops.append({"o": "create", "h": 3, "kids": [{"dp": r} for r in kids], "dps": g})
        roots = [r for r in roots if r not in kids] + [g[0]]
    h = 3
    for par in ["root"] + [{"dp": d} for d in range(k) if d not in gone]:
        ops.append({"o": "copy", "h": 1})
        h += 1
        ops.append({"o": "addSub", "h": h, "hs": 3, "par": par})
        ops.append({"o": "update", "h": h})
        if rnd.random() < 0.5:
            ops.append({"o": "relabel", "h": h})
    return k, ops


def gen_case(desc):
    """descriptor {"gen": {...}} -> full case (data, alpha, ops); a case that already has `ops` is returned as is"""
    if "ops" in desc:
        return desc
    import random

    g = desc["gen"]
    rnd = random.Random(g["seed"])
    n = g["n"]
    bits = rnd.choice([1, 2, 3])
    ds_vals = [[[Fraction(rnd.randint(1, 1 << bits), 1 << bits) for _ in range(g["G"])] for _ in range(g["S"])] for _ in range(n)]
    if g.get("shared"):  # mutations with identical grids
        for j in range(1, n):
            if rnd.random() < 0.4:
                ds_vals[j] = ds_vals[rnd.randrange(j)]
    op = Fraction(rnd.choice([0, 1, 1, 5]), 100) if g["outliers"] else Fraction(0)
    ds = DataSet(ds_vals, op)
    if g["stream"] == "grammar":
        ops = gen_history(rnd, n, g["max_ops"], outliers=g["outliers"])
    elif g["stream"] == "prunegraft":
        ops = g["ops"]
    else:
        ops = gen_weird(rnd, n, g["max_ops"])
    alpha = Fraction(rnd.choice([1, 1, 2, 3, 5]), rnd.choice([1, 2, 4]))
    return {"kind": "hist", "stream": "grammar" if g["stream"] == "prunegraft" else g["stream"], "data": ds.to_json(),
            "alpha": fr(alpha), "ops": ops}


def hist_descs(tier, rnd, n_grammar, n_weird, long_every=0):
    out = []
    for i in range(n_grammar):
        long = tier == "thorough" and long_every and i % long_every == 0
        out.append({"kind": "hist", "gen": {
            "seed": rnd.randrange(1 << 40), "stream": "grammar", "n": rnd.randint(1, 7 if not long else 6),
            "S": rnd.randint(1, 2), "G": rnd.randint(2, 5), "outliers": rnd.random() < 0.7, "shared": i % 4 == 0,
            "max_ops": rnd.randint(150, 400) if long else rnd.randint(5, 60)}})
    for i in range(max(20, n_grammar // 40) if n_grammar else 0):
        k, ops = directed_prune_graft(rnd)
        out.append({"kind": "hist", "gen": {"seed": rnd.randrange(1 << 40), "stream": "prunegraft", "n": k, "S": rnd.randint(1, 2),
                                            "G": rnd.randint(2, 5), "outliers": False, "shared": False, "ops": ops}})
    for i in range(n_weird):
        out.append({"kind": "hist", "gen": {
            "seed": rnd.randrange(1 << 40), "stream": "weird", "n": rnd.randint(2, 6), "S": rnd.randint(1, 2),
            "G": rnd.randint(2, 4), "outliers": True, "shared": False, "max_ops": rnd.randint(6, 45)}})
    return out


def check_hist(ctx, desc, want):
    case = gen_case(desc)
    summ = run_case(ctx, case, want)
    ctx.stat("stream_" + case.get("stream", "grammar"))
    ctx.stat("handles_%02d+" % (10 * (summ["max_handles"] // 10)))
    ctx.stat("len_%03d+" % (20 * (len(case["ops"]) // 20)))
    kinds = {o["o"] for o in case["ops"]}
    nontrivial = summ["max_handles"] >= 2 and bool(kinds & {"rmSub", "addSub", "rmDp", "relabel"})
    ctx.done(desc, nontrivial=nontrivial,
             sample={"stream": case.get("stream"), "n_ops": len(case["ops"]), "first_ops": case["ops"][:6]})
    return summ


class _Quiet:
    """context without a model, for oracle-only re-runs (search, shrinking)"""

    def __init__(self):
        self.lean = None
        self.oracle_failures = []
        self.corr_failures = []
        self.evaluations = 0

    def ask(self, req):
        raise RuntimeError("no model")

    def stat(self, *a, **k):
        pass

    def done(self, *a, **k):
        self.evaluations += 1

    def corr_fail(self, case, what, detail=None):
        self.corr_failures.append({"case": case, "what": what, "detail": detail})

    def oracle_fail(self, case, what, site, signature=None, detail=None):
        self.oracle_failures.append({"case": case, "what": what, "site": site, "signature": signature, "detail": detail})


def shrink_failure(failure, want):
    """remove ops while an oracle failure with the same signature persists"""
    case = failure.get("case") or {}
    if "ops" not in case:
        return failure
    sig = failure.get("signature")
    last = {}

    def still(c):
        q = _Quiet()
        try:
            run_case(q, dict(c, no_model=True), want)
        except Exception:
            return False
        for f in q.oracle_failures:
            if f["signature"] == sig:
                last["f"] = f
                return True
        return False

    small = shrink_ops(case, still)
    if still(small) and "f" in last:
        f = dict(last["f"])
        f["case"] = {k: v for k, v in small.items() if k != "no_model"}
        return f
    return failure


def search_hist(ctx, failed_cases, rnd, deadline, want, fresh=400):
    import time

    directed = []
    for _ in range(600):
        k, ops = directed_prune_graft(rnd)
        directed.append({"kind": "hist", "gen": {"seed": rnd.randrange(1 << 40), "stream": "prunegraft", "n": k, "S": rnd.randint(1, 2),
                                                 "G": rnd.randint(2, 4), "outliers": False, "shared": False, "ops": ops}})
    descs = list(failed_cases) + directed + hist_descs("quick", rnd, fresh, 0)
    for d in descs:
        if time.time() > deadline:
            break
        if d.get("kind", "hist") != "hist":
            continue
        try:
            case = dict(gen_case(d), no_model=True)
        except Exception:
            continue
        if case.get("stream", "grammar") != "grammar":
            continue
        q = _Quiet()
        try:
            run_case(q, case, want)
        except Exception:
            continue
        ctx.evaluations += 1
        for f in q.oracle_failures:
            f["case"] = {k: v for k, v in f["case"].items() if k != "no_model"}
            ctx.oracle_failures.append(f)
        if q.oracle_failures:
            return
