"""Shared helpers: exact-rational data generation, tree construction / extraction with
well-formedness assertions, enumeration of all trees on a data set, exact kernels."""
import itertools
import math
import os
import random
from fractions import Fraction

import numpy as np

from phyclone.data.base import DataPoint
from phyclone.data.pyclone import compute_outlier_prob
from phyclone.tree import Tree, FSCRPDistribution, TreeJointDistribution
from phyclone.smc.kernels import BootstrapKernel, SemiAdaptedKernel, FullyAdaptedKernel
from phyclone.smc.utils import RootPermutationDistribution
from phyclone.utils.dev import clear_proposal_dist_caches

from .enumrng import run_all

KERNELS = {"bootstrap": BootstrapKernel, "semi-adapted": SemiAdaptedKernel, "fully-adapted": FullyAdaptedKernel}


def seed_from_env(default=0):
    try:
        return int(os.environ.get("VERIF_SEED", default))
    except ValueError:
        return default


def fr(q):
    """Fraction -> 'num/den' string of the line protocol."""
    q = Fraction(q)
    return f"{q.numerator}/{q.denominator}"


# --------------------------------------------------------------------------- data
def gen_values(rnd, S, G, bits=4, lo=1):
    """S x G matrix of dyadic rationals k/2^bits in [lo/2^bits, 1]."""
    den = 1 << bits
    return [[Fraction(rnd.randint(lo, den), den) for _ in range(G)] for _ in range(S)]


def make_dp(idx, vals, outlier_prob=Fraction(0), size=1, name=None):
    """Real DataPoint from an exact likelihood matrix (probability domain)."""
    def _log(v):
        f = float(v)
        if f > 1e-300:
            return float(np.log(f))
        v = Fraction(v)  # below the float range: the log itself is perfectly representable
        return math.log(v.numerator) - math.log(v.denominator)

    arr = np.array([[_log(v) for v in row] for row in vals], dtype=float)
    a, b = compute_outlier_prob(float(outlier_prob), size)
    return DataPoint(idx, arr, name=name, outlier_prob=a, outlier_prob_not=b)


class DataSet:
    """n data points with exact values; .real is the list of phyclone DataPoints.
    `ops` (optional) gives a per-data-point outlier prior, otherwise `outlier_prob` applies to all."""

    def __init__(self, vals, outlier_prob=Fraction(0), sizes=None, ops=None):
        self.vals = vals  # list over data points of S x G Fractions
        self.n = len(vals)
        self.S = len(vals[0])
        self.G = len(vals[0][0])
        self.outlier_prob = Fraction(outlier_prob)
        self.sizes = sizes or [1] * self.n
        self.ops = [Fraction(x) for x in ops] if ops is not None else [self.outlier_prob] * self.n
        self.real = [make_dp(i, v, self.ops[i], self.sizes[i]) for i, v in enumerate(vals)]

    def to_json(self):
        return {
            "G": self.G,
            "S": self.S,
            "op": fr(self.outlier_prob),
            "ops": [fr(x) for x in self.ops],
            "sizes": self.sizes,
            "vals": [[[fr(x) for x in row] for row in v] for v in self.vals],
        }

    @staticmethod
    def from_json(j):
        vals = [[[Fraction(x) for x in row] for row in v] for v in j["vals"]]
        return DataSet(vals, Fraction(j["op"]), j.get("sizes"), j.get("ops"))


def gen_dataset(rnd, n, S=1, G=4, bits=3, outlier_prob=Fraction(0)):
    return DataSet([gen_values(rnd, S, G, bits) for _ in range(n)], outlier_prob)


# --------------------------------------------------------------------------- canonical trees
def canon_forest(forest):
    """forest: list of [dps, kids]; returns canonical form (sorted dps, kids sorted by min of clade)."""

    def cl_min(node):
        m = min(node[0]) if node[0] else math.inf
        for k in node[1]:
            m = min(m, cl_min(k))
        return m

    def c(node):
        return [sorted(node[0]), sorted((c(k) for k in node[1]), key=cl_min)]

    return sorted((c(x) for x in forest), key=cl_min)


def forest_size(forest):
    return sum(1 + forest_size(k) for _, k in forest)


def forest_clades(forest):
    out = set()

    def go(node):
        s = set(node[0])
        for k in node[1]:
            s |= go(k)
        out.add(frozenset(s))
        return s

    for x in forest:
        go(x)
    return frozenset(out)


class WFError(AssertionError):
    pass


def extract(tree, check=True):
    """Real Tree -> (canonical forest, sorted outliers); asserts well-formedness (C07) on the way."""
    g = tree._graph
    root_idx = tree._node_indices[tree._ROOT_NODE_NAME]
    seen = set()

    def req(c, msg):
        if check and not c:
            raise WFError(msg)

    def go(idx):
        req(idx not in seen, f"node index {idx} visited twice")
        seen.add(idx)
        node = g[idx]
        name = node.node_id
        req(tree._node_indices.get(name) == idx, f"name {name!r} not mapped to index {idx}")
        req(tree._node_indices_rev.get(idx) == name, f"index {idx} not mapped back to {name!r}")
        if idx != root_idx:
            req(g.in_degree(idx) == 1, f"node {name!r} in-degree {g.in_degree(idx)}")
            dl = [d.idx for d in tree._data.get(name, [])]
            req(sorted(dl) == sorted(node.data_points), f"node {name!r}: _data {dl} vs payload {sorted(node.data_points)}")
        else:
            dl = []
            req(g.in_degree(idx) == 0, "root has a parent")
            req(len(node.data_points) == 0 and len(tree._data.get(name, [])) == 0, "virtual root holds data")
        kids = [go(c) for c in g.successor_indices(idx)]
        return [sorted(dl), kids]

    top = go(root_idx)
    req(seen == set(g.node_indices()), f"unreachable nodes {set(g.node_indices()) - seen}")
    names = [g[i].node_id for i in g.node_indices()]
    req(len(set(names)) == len(names), f"duplicate node names {names}")
    req(set(tree._node_indices) == set(names), f"_node_indices keys {set(tree._node_indices)} vs names {set(names)}")
    req(set(tree._node_indices_rev) == set(g.node_indices()), "_node_indices_rev keys differ from graph indices")
    keys_with_data = {k for k, v in tree._data.items() if len(v) > 0}
    req(keys_with_data <= set(names) | {tree._OUTLIER_NODE_NAME}, f"_data has entries for unknown nodes {keys_with_data - set(names)}")
    outs = sorted(d.idx for d in tree._data.get(tree._OUTLIER_NODE_NAME, []))
    forest = canon_forest(top[1])
    alld = outs + [i for i in _all_dps(forest)]
    req(len(alld) == len(set(alld)), f"data point duplicated: {sorted(alld)}")
    return forest, outs


def _all_dps(forest):
    for d, k in forest:
        yield from d
        yield from _all_dps(k)


def tree_key(tree):
    f, o = extract(tree, check=False)
    return (forest_clades(f), frozenset(o))


def ckey(forest, outs):
    return (forest_clades(forest), frozenset(outs))


def build_tree(data, forest, outs=()):
    """Build a real Tree from a canonical forest through the public editing API."""
    t = Tree(data[0].grid_size)

    def mk(node):
        kids = [mk(k) for k in node[1]]
        return t.create_root_node(children=kids, data=[data[i] for i in node[0]])

    for x in forest:
        mk(x)
    for o in outs:
        t.add_data_point_to_outliers(data[o])
    return t


# --------------------------------------------------------------------------- enumeration
def partitions(s):
    s = list(s)
    if not s:
        yield []
        return
    first, rest = s[0], s[1:]
    for p in partitions(rest):
        for i in range(len(p)):
            yield p[:i] + [[first] + p[i]] + p[i + 1 :]
        yield [[first]] + p


def parent_vectors(k):
    for par in itertools.product(range(-1, k), repeat=k):
        ok = True
        for i in range(k):
            seen = set()
            j = i
            while j != -1:
                if j in seen:
                    ok = False
                    break
                seen.add(j)
                j = par[j]
            if not ok:
                break
        if ok:
            yield par


def forest_from_parents(blocks, par):
    k = len(blocks)

    def mk(i):
        return [sorted(blocks[i]), [mk(c) for c in range(k) if par[c] == i]]

    return canon_forest([mk(i) for i in range(k) if par[i] == -1])


def all_canon_trees(n, outliers=False):
    """All (forest, outs) on data points 0..n-1, each tree once."""
    out = {}
    idxs = list(range(n))
    subsets = [()] if not outliers else [c for r in range(n + 1) for c in itertools.combinations(idxs, r)]
    for outs in subsets:
        rem = [i for i in idxs if i not in outs]
        for p in partitions(rem):
            for par in parent_vectors(len(p)):
                f = forest_from_parents(p, par)
                out.setdefault(ckey(f, outs), (f, list(outs)))
    return list(out.values())


def random_canon_tree(rnd, n, outliers=False, max_out=None):
    idxs = list(range(n))
    outs = []
    if outliers:
        k = rnd.randint(0, n if max_out is None else min(n, max_out))
        outs = sorted(rnd.sample(idxs, k))
    rem = [i for i in idxs if i not in outs]
    rnd.shuffle(rem)
    blocks = []
    for i in rem:
        if blocks and rnd.random() < 0.45:
            rnd.choice(blocks).append(i)
        else:
            blocks.append([i])
    k = len(blocks)
    par = []
    deep = rnd.random() < 0.3  # a third of the trees are chain-heavy (deep lineages next to siblings)
    for i in range(k):
        if not i:
            par.append(-1)
        elif deep:
            par.append(rnd.choice([i - 1, i - 1, i - 1, -1] + list(range(i))))
        else:
            par.append(rnd.choice([-1, -1] + list(range(i))))
    return forest_from_parents(blocks, par), outs


# --------------------------------------------------------------------------- densities / kernels
def make_tree_dist(alpha):
    return TreeJointDistribution(FSCRPDistribution(float(alpha)))


def exact_kernel(states, data, step, keyf=tree_key, max_leaves=2_000_000):
    """Exact transition matrix of `step(tree, rng) -> tree` over `states` (list of (forest, outs)).
    Returns (keys, K, leaves)."""
    keys = [ckey(f, o) for f, o in states]
    idx = {k: i for i, k in enumerate(keys)}
    K = np.zeros((len(keys), len(keys)))
    leaves = 0
    for i, (f, o) in enumerate(states):

        def run(rng, f=f, o=o):
            clear_proposal_dist_caches()
            return keyf(step(build_tree(data, f, o), rng))

        for p, r in run_all(run, max_leaves):
            leaves += 1
            if r not in idx:
                raise WFError(f"move left the state space: {r}")
            K[i, idx[r]] += p
    return keys, K, leaves


def posterior(states, data, tree_dist):
    lp = np.array([tree_dist.log_p_one(build_tree(data, f, o)) for f, o in states])
    pi = np.exp(lp - lp.max())
    return pi / pi.sum()


# --------------------------------------------------------------------------- resampling-threshold ties
TIE = {"theta": None, "hit": False, "min_gap": 1.0}


def install_tie_probe():
    """Record whether any adaptive-resampling decision of the real code was taken with the relative ESS
    within 1e-9 of the threshold.  The model decides `relative_ess <= threshold` in exact arithmetic, the
    code in floats: on an exact tie (e.g. two particles with weights 2:1 and threshold 9/10) the two may
    legitimately differ by an ulp, so such cases are excluded from the comparison (counted, not judged)."""
    from phyclone.smc.swarm import ParticleSwarm

    if getattr(ParticleSwarm, "_verif_tie_probe", False):
        return TIE
    orig = ParticleSwarm.relative_ess.fget

    def probed(self):
        v = orig(self)
        th = TIE["theta"]
        if th is not None:
            gap = abs(float(v) - th)
            if gap < TIE["min_gap"]:
                TIE["min_gap"] = gap
            if gap < 1e-9:
                TIE["hit"] = True
        return v

    ParticleSwarm.relative_ess = property(probed)
    ParticleSwarm._verif_tie_probe = True
    return TIE


def tie_reset(theta):
    TIE["theta"] = float(theta)
    TIE["hit"] = False
    TIE["min_gap"] = 1.0
