"""Exhaustively enumerating stand-in for numpy.random.Generator.

run_all(f) re-executes f(rng) once per leaf of f's random-choice tree and returns
[(probability, result)].  Only the subset of the Generator API that phyclone uses is
implemented; uniformity of numpy's shuffle / choice / integers / multinomial is assumed and
replaced by exact enumeration (trusted base, see DESIGN.md section 5).
"""
import numpy as np


class LazyU:
    """A uniform(0,1) draw that is only resolved through the comparisons the code makes."""

    __slots__ = ("rng", "lo", "hi")

    def __init__(self, rng):
        self.rng = rng
        self.lo = 0.0
        self.hi = 1.0

    def _cmp_lt(self, x):  # u < x ?
        x = float(x)
        if x <= self.lo:
            return False
        if x >= self.hi:
            return True
        p = (x - self.lo) / (self.hi - self.lo)
        r = self.rng._choose([p, 1 - p])
        if r == 0:
            self.hi = x
            return True
        self.lo = x
        return False

    def __lt__(self, x):
        return self._cmp_lt(x)

    def __le__(self, x):
        return self._cmp_lt(x)

    def __gt__(self, x):
        return not self._cmp_lt(x)

    def __ge__(self, x):
        return not self._cmp_lt(x)

    def __float__(self):
        raise TypeError("LazyU used as a number; only comparisons are enumerable")


class EnumRNG:
    def __init__(self, path):
        self.path = list(path)
        self.pos = 0
        self.prob = 1.0
        self.alts = []
        self.log = []  # (kind, arity) of every choice point, for coverage statistics

    def _choose(self, probs):
        probs = [float(p) for p in probs]
        opts = [k for k, p in enumerate(probs) if p > 0]
        if self.pos < len(self.path):
            i = self.path[self.pos]
        else:
            i = opts[0]
            self.path.append(i)
        self.alts.append(opts)
        self.pos += 1
        self.prob *= probs[i]
        return i

    # --- numpy Generator API subset -------------------------------------------------
    def random(self):
        return LazyU(self)

    def integers(self, lo, hi=None):
        if hi is None:
            lo, hi = 0, lo
        n = int(hi) - int(lo)
        return int(lo) + self._choose([1.0 / n] * n)

    def choice(self, a, size=None, replace=True):
        a = list(a)
        if size is None:
            if len(a) == 0:
                raise ValueError("a cannot be empty unless no samples are taken")
            return a[self._choose([1.0 / len(a)] * len(a))]
        assert replace is False
        out = []
        rem = list(a)
        for _ in range(int(size)):
            i = self._choose([1.0 / len(rem)] * len(rem))
            out.append(rem.pop(i))
        if len(a):
            return np.array(out, dtype=np.asarray(a).dtype)
        return np.array(out, dtype=float)

    def shuffle(self, x):
        """Fisher-Yates, one enumerated choice per step.  Candidates holding equal values are merged
        into one branch (weight = their number): the remaining prefix is shuffled uniformly whatever
        its arrangement, so the output distribution is unchanged while runs of equal sentinels cost
        multinomially many leaves instead of n!."""
        n = len(x)
        for i in range(n - 1, 0, -1):
            groups = []  # (representative index, count)
            seen = {}
            for j in range(i + 1):
                try:
                    k = ("h", x[j])
                    hash(k)
                except TypeError:
                    k = ("id", id(x[j]))
                if k in seen:
                    groups[seen[k]][1] += 1
                else:
                    seen[k] = len(groups)
                    groups.append([j, 1])
            g = self._choose([c / (i + 1) for _, c in groups])
            j = groups[g][0]
            x[i], x[j] = x[j], x[i]

    def multinomial(self, n, p):
        p = np.asarray(p, dtype=float)
        if not np.all(np.isfinite(p)):
            raise ValueError("pvals must be finite")
        p = p / p.sum()
        counts = np.zeros(len(p), dtype=int)
        for _ in range(int(n)):
            counts[self._choose(list(p))] += 1
        return counts


class TooManyLeaves(RuntimeError):
    pass


def run_all(f, max_leaves=2_000_000):
    """Enumerate all leaves of f's random-choice tree.  f(rng) -> result."""
    results = []
    stack = [[]]
    leaves = 0
    while stack:
        prefix = stack.pop()
        rng = EnumRNG(prefix)
        res = f(rng)
        results.append((rng.prob, res))
        leaves += 1
        if leaves > max_leaves:
            raise TooManyLeaves(leaves)
        full = rng.path
        for d in range(len(prefix), len(full)):
            taken = full[d]
            for o in rng.alts[d]:
                if o > taken:
                    stack.append(full[:d] + [o])
    return results


def dist_of(f, keyf=lambda x: x, max_leaves=2_000_000):
    """Exact output distribution {key: prob} of the randomised procedure f(rng)."""
    out = {}
    n = 0
    for p, r in run_all(f, max_leaves):
        k = keyf(r)
        out[k] = out.get(k, 0.0) + p
        n += 1
    return out, n
