#!/bin/sh
# usage: run_refactors.sh <worktree> <tag>
WT=$1; TAG=$2
cd $WT
for k in 1 2 3 4 5 6; do
  git checkout -q -- phyclone
  [ -f refactor/r$k.diff ] || continue
  git apply refactor/r$k.diff || { echo "$TAG r$k: patch does not apply"; continue; }
  for id in C01 C02 C03 C04 C05 C06 C07 C08 C09 C10 C11 C12 C13 C14 C15 C16 C17 C18 C19 C20; do
    (cd /verif && PYTHONPATH=$WT VERIF_OUT=/root/work/outref_$TAG ./check $id > /root/work/outref_${TAG}_r${k}_$id.log 2>&1)
    rc=$?
    if [ $rc -ne 0 ]; then echo "$TAG r$k $id exit=$rc $(grep -c CORRESPONDENCE /root/work/outref_${TAG}_r${k}_$id.log) corr; $(grep VIOLATION /root/work/outref_${TAG}_r${k}_$id.log | head -1)"; fi
  done
  echo "$TAG r$k done"
done
git checkout -q -- phyclone
