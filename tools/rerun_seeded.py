#!/usr/bin/env python3
"""Re-run the recorded seeded changes against the current checks (regression test of the machinery itself).

usage: rerun_seeded.py [name ...]        (default: every directory under seeded/)

For each seeded/<name>/: apply patch.diff in a scratch worktree of /repo (outside /repo and /verif, removed afterwards;
HEAD first, then the commit the seed was made against if the patch no longer applies), run the quick tier of the check(s)
that caught it when it was recorded (meta.json), through PYTHONPATH so /repo itself is never touched, and report whether a
VIOLATION is still raised.  Writes seeded/RERUN.json.  Exit 1 if a seed that was caught is now missed."""
import json, os, subprocess, sys, tempfile, shutil, time

ROOT = os.path.dirname(os.path.dirname(os.path.abspath(__file__)))
SEEDED = os.path.join(ROOT, "seeded")
BASES = ["HEAD", "a570e9b"]


def sh(cmd, cwd=None, env=None, timeout=1800):
    p = subprocess.run(cmd, shell=True, cwd=cwd, env=env, stdout=subprocess.PIPE, stderr=subprocess.STDOUT, text=True, timeout=timeout)
    return p.returncode, p.stdout


def main():
    names = sys.argv[1:] or sorted(d for d in os.listdir(SEEDED) if os.path.isdir(os.path.join(SEEDED, d)))
    out, missed = {}, []
    scratch = tempfile.mkdtemp(prefix="rerun_seeded_")
    wt = os.path.join(scratch, "wt")
    try:
        for name in names:
            d = os.path.join(SEEDED, name)
            meta = json.load(open(os.path.join(d, "meta.json")))
            checks = meta.get("what_i_ran", {}).get("checks") or {}
            caught_by = [c for c, v in checks.items() if v.get("exit") == 1] or [meta.get("what_i_ran", {}).get("check_quick", {}).get("check") or meta["property"]]
            applied = None
            for base in BASES:
                sh(f"git -C /repo worktree remove --force {wt}")
                rc, o = sh(f"git -C /repo worktree add --detach {wt} {base}")
                if rc != 0:
                    continue
                rc, o = sh(f"git apply {os.path.join(d, 'patch.diff')}", cwd=wt)
                if rc == 0:
                    applied = base
                    break
            rec = {"applied_on": applied, "recorded_caught_by": caught_by, "now": {}}
            if applied is None:
                rec["note"] = "patch applies to neither base"
            else:
                env = dict(os.environ, PYTHONPATH=wt, PYTHONHASHSEED="0", VERIF_OUT=os.path.join(scratch, "out", name))
                for c in caught_by:
                    t = time.time()
                    rc, o = sh(f"./check {c}", cwd=ROOT, env=env)
                    rec["now"][c] = {"exit": rc, "wall_s": round(time.time() - t, 1),
                                     "violation": [l for l in o.splitlines() if l.startswith("VIOLATION")][:1]}
                if not any(v["exit"] == 1 for v in rec["now"].values()):
                    if meta.get("neutralised_by") and applied == "HEAD":
                        rec["note"] = "neutralised by " + meta["neutralised_by"]
                    else:
                        missed.append(name)
            out[name] = rec
            print(name, applied, {c: v["exit"] for c, v in rec["now"].items()}, flush=True)
    finally:
        sh(f"git -C /repo worktree remove --force {wt}")
        sh("git -C /repo worktree prune")
        shutil.rmtree(scratch, ignore_errors=True)
    head = sh("git rev-parse --short HEAD", cwd=ROOT)[1].strip()
    repo_head = sh("git -C /repo rev-parse --short HEAD")[1].strip()
    path = os.path.join(SEEDED, "RERUN.json")
    stamp = {"when": time.strftime("%Y-%m-%d %H:%M:%S"), "verif_commit": head, "repo_commit": repo_head}
    if sys.argv[1:] and os.path.exists(path):  # partial re-run: merge into the recorded full run, stamping the entries re-run now
        old = json.load(open(path))
        for n, r in out.items():
            old["results"][n] = dict(r, rerun=stamp)
        old["missed"] = sorted((set(old.get("missed", [])) - set(out)) | set(missed))
        json.dump(old, open(path, "w"), indent=1)
    else:
        json.dump(dict(stamp, missed=missed, results=out), open(path, "w"), indent=1)
    print("missed:", missed)
    return 1 if missed else 0


if __name__ == "__main__":
    sys.exit(main())
