#!/usr/bin/env python3
"""Confirm a seeded change and record it under /verif/seeded/<name>/.

usage: verify_seeded.py <name> <property> <scratch worktree> <mutation dir inside it> [--no-tests]

In the scratch worktree (never /repo): reset to clean, check the demo passes; apply the patch, run the
pinned test suite (must be the baseline: 85 passed), check the demo fails; then run ./check <property>
(quick) against the patched worktree through PYTHONPATH and record whether it raised a violation.
Finally revert the worktree."""
import json, os, re, shutil, subprocess, sys, time

name, prop, wt, mdir = sys.argv[1:5]
props = prop.split("+")  # property the change breaks first, then further checks to run against it
prop = props[0]
run_tests = "--no-tests" not in sys.argv
mdir = os.path.join(wt, mdir)
env = dict(os.environ, PYTHONPATH=wt, PYTHONHASHSEED="0", VERIF_OUT=os.path.join("/tmp/seeded_out", name))


def sh(cmd, cwd=wt, timeout=1800, env=env):
    p = subprocess.run(cmd, shell=True, cwd=cwd, env=env, stdout=subprocess.PIPE, stderr=subprocess.STDOUT, text=True, timeout=timeout)
    return p.returncode, p.stdout


out = {"name": name, "property": prop, "verified_at": time.strftime("%Y-%m-%d %H:%M:%S")}
patch = os.path.join(mdir, "patch.diff")
sh("git checkout -- phyclone && git clean -fdq phyclone")
rc, o = sh(f"/venv/bin/python {os.path.join(mdir, 'demo.py')}", timeout=900)
out["demo_without_change"] = {"exit": rc, "tail": o[-300:]}
rc, o = sh(f"git apply {patch}")
assert rc == 0, o
try:
    rc, o = sh(f"/venv/bin/python {os.path.join(mdir, 'demo.py')}", timeout=900)
    out["demo_with_change"] = {"exit": rc, "tail": o[-600:]}
    if run_tests:
        rc, o = sh("/venv/bin/python -m pytest -q -p no:cacheprovider --timeout=900 --continue-on-collection-errors phyclone/tests", timeout=2400)
        out["tests_with_change"] = o.strip().splitlines()[-1]
        failed = sorted(set(re.findall(r"^(?:FAILED|ERROR) (\S+)", o, flags=re.M)))
        out["tests_not_passing"] = failed
    out["checks"] = {}
    for pp in props:
        t = time.time()
        rc, o = sh(f"./check {pp}", cwd="/verif", timeout=1800)
        out["checks"][pp] = {"exit": rc, "wall_s": round(time.time() - t, 1), "violation_lines": [l for l in o.splitlines() if l.startswith("VIOLATION")],
                             "tail": o[-600:]}
    best = next((pp for pp in props if out["checks"][pp]["exit"] == 1), props[0])
    out["check_quick"] = dict(out["checks"][best], check=best)
finally:
    sh("git checkout -- phyclone && git clean -fdq phyclone")
# restore the clean evidence file of the property
dst = os.path.join("/verif/seeded", name)
os.makedirs(dst, exist_ok=True)
shutil.copy(patch, os.path.join(dst, "patch.diff"))
shutil.copy(os.path.join(mdir, "demo.py"), os.path.join(dst, "demo.py"))
meta = {}
if os.path.exists(os.path.join(mdir, "meta.json")):
    try:
        meta = json.load(open(os.path.join(mdir, "meta.json")))
    except Exception:
        meta = {"agent_meta_unreadable": True}
json.dump({"property": prop, "breaks": meta.get("summary"), "needs_to_manifest": meta.get("needs_to_manifest"),
           "files_changed": meta.get("files_changed"), "what_i_ran": out, "agent_meta": meta},
          open(os.path.join(dst, "meta.json"), "w"), indent=1)
ok = out["demo_without_change"]["exit"] == 0 and out["demo_with_change"]["exit"] != 0
print(json.dumps({"name": name, "demo_ok": ok, "tests": out.get("tests_with_change"), "check_exit": out["check_quick"]["exit"],
                  "violation": out["check_quick"]["violation_lines"]}, indent=1))
