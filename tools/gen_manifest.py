#!/usr/bin/env python3
"""Regenerate MANIFEST.json from the harness modules present (harness/props/cXX.py) and the table below."""
import ast, glob, json, os, re
R = os.path.dirname(os.path.dirname(os.path.abspath(__file__)))
props = [json.loads(l) for l in open(os.path.join(R, "properties.jsonl"))]

TEXT = {
 "C01": ("Theorems: conditional SMC (retained path, any number of particles and steps, any symmetric adaptive resampling rule) leaves the target invariant; the auxiliary data-order mixture preserves invariance. The executable Lean model of ParticleGibbsTreeSampler.sample_tree is compared, transition row by transition row, with the exact kernel of the real code (every outcome of every draw enumerated), for both the run-command wiring and the library wiring; an independent oracle checks pi K = pi on every enumerated configuration.",
         "exact-kernel correspondence + Lean theorem (abstract CSMC invariance)"),
 "C02": ("Theorem for every forest, sample and grid index: the root likelihood vector equals the prior times the brute-force sum over all feasible index assignments (exact arithmetic). Correspondence: every clone's cached vectors of real trees vs the model; float clauses (floor, FFT switch, finiteness) by numerical comparison against extended precision.",
         "Lean theorem (recursion = brute-force marginal) + differential check"),
 "C03": ("Executable Lean model of the two FS-CRP joint densities compared with the real log_p / log_p_one / fused variant on trees realised through several construction histories; independent Python transcription of the property's formula as oracle; equality/hash vs (clades, outliers).",
         "Lean model + differential check over construction histories"),
 "C04": ("Theorems: block-Gibbs invariance and sweep composition. Executable Lean models of the data-point, prune-regraft and random-subtree moves are compared row by row with the exact kernels of the real samplers; oracle pi K = pi on every configuration of the first two moves; the subtree move's unconditional invariance is false (known finding F7, pinned instances).",
         "exact-kernel correspondence + Lean theorem (block Gibbs)"),
 "C08": ("Executable Lean model of the three proposals (table mirroring log_p, Dist mirroring sample, incremental weights) compared with the real code on enumerated and random parent states; oracles: probabilities sum to one, sampled = reported, complete support, telescoping weight identity along random paths.",
         "Lean model + exact-distribution differential check"),
 "C09": ("Theorems for every tree with distinct data: the enumerated orders are exactly the compatible ones (sound, complete, no duplicates), the code's count equals their number, the sampler is uniform on them, the density is 1/count. Correspondence: exact distribution of the real sampler and log_pdf vs the model; brute force over all permutations as oracle.",
         "Lean theorem + exact-distribution differential check"),
}
DEFAULT_NOTE = ("Trusted: Lean 4.33 kernel (axioms per theorem printed and required within propext / Classical.choice / Quot.sound), the "
                "hand-written model's correspondence to /repo as checked on this run's generated inputs, the enumerating stand-in for "
                "numpy's Generator, IEEE/numpy/scipy/rustworkx/pandas numerics and containers (modelled, not verified).")

checks, na = [], []
for p in props:
    pid = p["id"]
    f = os.path.join(R, "harness", "props", pid.lower() + ".py")
    if not os.path.exists(f):
        na.append({"property_id": pid, "reason": "check not merged yet in this session (slice under construction); see DESIGN.md section 6"})
        continue
    src = open(f).read()
    def attr(name, default=None):
        m = re.search(r"^%s\s*=\s*(.+?)(?=^\S)" % name, src, flags=re.M | re.S)
        if not m:
            return default
        try:
            return ast.literal_eval(m.group(1).strip())
        except Exception:
            return default
    level = attr("LEVEL", "proof")
    pf = os.path.join(R, "lean", "PhyModel", "Props", pid + ".lean")
    psrc = open(pf).read() if os.path.exists(pf) else ""
    stripped = re.sub(r"/-.*?-/", "", psrc, flags=re.S)
    if level == "proof" and ("OBLIGATION-OPEN" in psrc or not re.search(r"^theorem\s", re.sub(r"--.*", "", stripped), flags=re.M)):
        level = "other"
    text, tech = TEXT.get(pid, (None, None))
    if text is None:
        text = (attr("EXPLANATION") or attr("RULE") or "Lean model + property theorems + correspondence with the real code; see DESIGN.md section 6.")
        tech = {"proof": "Lean theorem + differential correspondence check", "other": "partial Lean proof + differential / runtime check",
                "fault_enumeration": "exhaustive fault enumeration + Lean framing proof"}.get(level, "Lean model + correspondence")
    if isinstance(text, str) and len(text) > 1500:
        text = text[:1500]
    checks.append({
        "property_id": pid,
        "quick_cmd": f"./check {pid}",
        "thorough_cmd": f"./check {pid} --tier thorough",
        "evidence_file": f"evidence/{pid}.json",
        "replay_cmd_template": f"./check {pid} --replay {{path}}",
        "engine": "lean-model+harness",
        "level_claimed": {"category": level, "text": text, "design_ref": f"DESIGN.md section 6, {pid}"},
        "level_note": DEFAULT_NOTE,
        "technique": tech,
    })
m = {
    "version": 1,
    "setup_cmd": "cd lean && lake build PhyModel driver",
    "hooks": {"guard": "PHYCLONE_VERIF", "enable": "no source hooks: the harness instruments phyclone at run time (attribute wrapping, __wrapped__, sitecustomize for spawned workers); phyclone is imported from /repo's working tree (editable install)",
              "baseline_off_cmd": "cd /repo && /venv/bin/python -m pytest -ra -q -p no:cacheprovider --timeout=900 --continue-on-collection-errors", "source_commits": [], "add_only": True},
    "engines": [{"name": "lean-model+harness", "path": "check", "serves_properties": [c["property_id"] for c in checks],
                 "kind_free_text": "Lean 4 model + theorems (lean/), Python correspondence harness (harness/), entry point ./check"}],
    "checks": checks,
    "not_applicable": na,
    "notes": "Genuine defects repaired in /repo as 'fix:' commits and open known findings are listed in known_findings.json and DESIGN.md section 7.",
}
json.dump(m, open(os.path.join(R, "MANIFEST.json"), "w"), indent=1)
print(len(checks), "checks;", [x["property_id"] for x in na], "not yet claimed")
