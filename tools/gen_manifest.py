#!/usr/bin/env python3
"""Regenerate MANIFEST.json from the harness modules present (harness/props/cXX.py) and the table below."""
import ast, glob, json, os, re
R = os.path.dirname(os.path.dirname(os.path.abspath(__file__)))
props = [json.loads(l) for l in open(os.path.join(R, "properties.jsonl"))]

TEXT = {
 "C01": ("Theorems (Props/C01): pg_invariant - for every data set with positive likelihoods, alpha > 0, outlier proposal probability in [0,1), each of the three proposals, kernel with a permutation distribution, every number of particles and every resampling threshold, the executable Lean model SMC.pgStep of ParticleGibbsTreeSampler.sample_tree satisfies sum_x pOne x * P(pgStep x = y) = pOne y over the complete trees of the data set. Built from: csmc_invariant and csmc_invariant_final_resample (abstract conditional SMC, retained path in slot 0, any symmetric adaptive resampling rule, hypotheses asked of the T steps performed; without and with a resampling step in front of the final draw - the latter is the code's schedule for a single data point), pg_spec_valid (PhyClone's partial trees along a fixed order, Proposal.table, pMarg*pdf / pOne*pdf targets, removal of the last-placed data point as parent satisfy those hypotheses, from the C08 theorems), reachable_iff_order (a tree is reached along sigma iff sigma is one of its compatible orders) with C09 and aux_mixture_invariant (pg_invariant_abstract), and the identification of the list-based executable sweep (sorted multinomial ancestors, weights from 1/N, lookupQ, retained path by restriction) with the abstract kernel (pg_csmc_exec, pg_step_exec). The model is compared, transition row by transition row, with the exact kernel of the real code (every outcome of every draw enumerated) for the run-command wiring and the library wiring; an independent oracle checks pi K = pi to 1e-10 on every enumerated configuration.",
         "Lean theorem (particle-Gibbs invariance of the executable model) + exact-kernel correspondence"),
 "C02": ("Theorems for every forest, sample and grid index: the root likelihood vector equals the prior times the brute-force sum over all feasible index assignments; it is positive for positive data and independent of sibling order (exact arithmetic). Correspondence: every clone's cached vectors and the root vector of real trees vs the model and vs an independent brute force; float clauses (floor 1e-100, never below exact, FFT switch at 1000, finiteness) by comparison with extended precision.",
         "Lean theorem (recursion = brute-force marginal) + differential check"),
 "C03": ("Theorems: both joint densities are invariant under sibling reordering, reordering inside clones and of the outlier list; the canonical form is density-preserving and a complete tree key (treeKey_iff); densities are positive (finite logs) for positive data; the outlier marginal is the single-clone marginal. Correspondence: log_p / log_p_one / fused variant / TreeHolder on trees realised through six construction histories vs the model; oracle = independent transcription of the property's formula; ==/hash vs (clades, outliers).",
         "Lean theorem (density depends only on the tree) + differential check"),
 "C04": ("Theorems: the data-point Gibbs scan and the prune-regraft move of the executable model leave pOne invariant on every well-formed closed state list (dataPointMove_invariant, pruneRegraft_invariant), any sequence of invariant kernels is invariant; capstone full_sweep_invariant / chain_invariant: one full sweep of the run loop without the random-subtree move (particle Gibbs, then the data-point scans, then the prune-regraft moves), and any number of sweeps at a fixed concentration, leave pOne invariant for all three proposals, every N and threshold. The models of all three moves, and of one whole iteration of the run loop (_run_main_sampler driven under the enumerating generator), are compared row by row with the exact kernels of the real code; oracle pi K = pi per configuration. For the random-subtree move the conditional statement is proved: given the chosen region, the re-weighted conditional SMC (abstract theorem for corrected final weights, also with the single-data-point schedule) leaves the full-tree density restricted to that region invariant, for every region a well-formed tree can yield (subtree_conditional_invariant, subtree_region_ok); the unconditional invariance is FALSE of model and code: known finding F7 (pinned instances, exact bias signature; a validated repair is recorded in findings/), which is why the level is `other`.",
         "Lean theorem (block Gibbs on the model) + exact-kernel correspondence; known finding F7"),
 "C05": ("Theorems: genotype list = PyClone major-copy-number prior; expected VAF in (0,1); binomial and beta-binomial (Pochhammer form, Chu-Vandermonde) pmfs sum to one; the genotype mixture sums to one over all alternate counts and is positive; grid entry = mixture at CCF k/(G-1); cluster grid = product of members; outlier terms = per-mutation terms to the power of the cluster size. Correspondence: load_data on generated input files vs the model and vs a Fraction oracle.",
         "Lean theorem + differential check against load_data"),
 "C06": ("Theorems on the executable store model (one Lean definition per method of phyclone.tree.Tree / TreeNode): the cache invariant (p = prior x product of the clone's data, r = p (.) S(children's cached r), root vector when a clone exists) holds for the empty tree and is preserved by every edit operation and hence along every history of any length over several live handles (cacheOK_step, cacheOK_reachable, cacheOK_reachable_legal); under it every cached vector equals the from-scratch recursion and both cache-read joint densities equal the densities of the abstract tree (rebuild_eq). Correspondence: model vs real Tree after every op of generated edit histories (exact rationals vs floats); oracle: exact recomputation of every cached vector and densities of a rebuilt tree.",
         "Lean theorem (invariant by induction over edit histories) + differential check on edit histories"),
 "C07": ("Theorems on the executable store model: well-formedness (names/indices unique, name<->index maps exactly the payload pairs, _data keyed by clone names or the outlier key and equal to the payload sets, every data point in exactly one place) holds for the empty tree and is preserved by every edit operation under the side conditions of the sampler grammar, hence along every legal history (wf_step, wf_reachable); per-operation data accounting (data_conserved), subtree extraction = clade, subtree and data-point moves conserve the data multiset, labels partition the data. Graph shape is proved on an explicit digraph model of the rustworkx calls tree.py makes (forest_*: one parent, reachable from the root, acyclic, preserved by every edit; graph_*: the structural operations are correct abstractions of those call sequences), which is compared with the real graph's node and edge lists after every operation. Correspondence: model vs real Tree after every op of generated histories; oracle: full well-formedness clause list on every live handle, and every sampler invocation (burn-in SMC, PG, subtree PG, data-point, prune-regraft, run-loop iteration; three proposals; outliers on/off) returns a well-formed tree on exactly the input data; retained path reproduces the input tree.",
         "Lean theorem (invariant by induction over edit histories) + differential check on edit histories and sampler invocations"),
 "C15": ("Theorems on the store model and the trace-loop model: for every store satisfying the reachable invariants (WF, Full, CacheOK, Aligned; graph indices with arbitrary gaps) fromDict (toDict s) restores the same forest, names, indices, data map, last-added clone, labels and cached vectors, hence the same joint densities, and editing after a round trip is editing the original (roundtrip_edits_commute); the recorded iterations are the post-burn-in state followed by exactly the iterations i < num_iters with i % thin = 0, in order, cut only by the time limit (trace_schedule, trace_schedule_timed); every entry is built after relabelling and the concentration update, restores to a tree holding every data point once, and its recorded log_p_one is the fixed-root density under the recorded alpha (entry_after_update, entry_consistent, entry_data_complete). Correspondence/oracle: trees reached by edit histories round-tripped through dict, pickle, the gzip trace file and TreeHolder, then edited in lockstep; real traces from run_phyclone_chain and the CLI over a grid of run configurations, every entry recomputed.",
         "Lean theorem (round trip, schedule, entry consistency) + differential check on round trips and real traces"),
 "C08": ("Theorems for all three proposals, every parent state and data point: reported probabilities sum to one, every placement is in the support with positive probability, the sampler draws each tree with exactly the reported probability, weights and proposal probabilities telescope to pOne*pdf along every path, parents are unique. Correspondence: log_p of every placement, exact distribution of sample() and particle weights vs the model; oracles: normalisation, sampled = reported, complete support, telescoping on random paths.",
         "Lean theorem + exact-distribution differential check"),
 "C09": ("Theorems for every tree with distinct data: the enumerated orders are exactly the compatible ones (sound, complete, no duplicates), the code's count equals their number, the sampler is uniform on them, the density is 1/count. Correspondence: exact distribution of the real sampler and log_pdf vs the model; brute force over all permutations as oracle.",
         "Lean theorem + exact-distribution differential check"),
 "C10": ("Theorems on the line-by-line model of map.py: the traceback is on the grid, feasible (child-sum constraint, top-level total <= G-1) and optimal among all feasible assignments; the root value is the maximum; clonal prevalence is non-negative (exact). Correspondence: indices one-to-one on exactly representable inputs (ties included), objective values on API-built trees; brute-force maximum as oracle.",
         "Lean theorem + differential check"),
 "C11": ("Theorems on the trace model (any key type, any linearly ordered score): the MAP pick attains the maximum and is permutation-invariant up to ties; the frequency pick has maximal count; topology rows are distinct, counts exact and summing to the number of entries, scores are per-topology maxima attained at the recorded pointer, rows sorted; the archive is the top-k. Correspondence: the real commands on synthetic and sampled traces.",
         "Lean theorem + differential check against the CLI commands"),
 "C12": ("Theorems on the table model: rows are a permutation of mutations x samples, clone ids are tree nodes or -1, clusters share a clone, CCF/prevalence are the clone's values or -1, and the table is defined for every tree incl. all-outlier and empty-clone trees. Correspondence: TABLE.tsv / Newick of the three commands, clustered and unclustered, on synthetic traces and real runs.",
         "Lean theorem + differential check against the CLI commands"),
 "C13": ("Theorems over the reals (Mathlib): parameters of the three draws, mixture density identity, both exact conditionals, eta-marginal, and conc_gibbs: the two-stage kernel leaves the measure with density target(a,b,K,n) invariant (from a general two-stage Gibbs theorem over s-finite measures). K, n extraction and value-in-force proved on the model. Level `other` because of known finding F12 (the 1e-10 floor censors the draw) and because scipy's samplers are trusted. Correspondence: parameters recorded at the real scipy calls, K/n passed by the run loop, trace alphas.",
         "Lean theorem (measure-theoretic Gibbs step) + recorded-parameter correspondence; known finding F12"),
 "C14": ("Theorems: keyed LRU memo table with evictions, clears and a changing environment returns the unmemoised value for every history provided the function respects the key; the children-convolution recursion respects its multiset key, the pairwise convolution its unordered-pair key, the proposal table and new-clone tree their (data point, kernel parameters, parent, alpha) keys. Correspondence: every call of the five cached functions in real runs shadowed by the unmemoised original; lru_cache hit/miss behaviour vs the model.",
         "Lean theorem (memo soundness) + shadow comparison"),
 "C16": ("Theorems on the executable consensus model: majority clades (threshold >= 1/2, counts or weights) are laminar, the inconsistent-clades branch is unreachable, own sets are clade minus sub-clades, the built tree's clades are exactly the majority clades, uncovered data are reported as -1, the run succeeds on the domain. Correspondence: get_consensus_tree / write_consensus_results on random mixtures; oracle recomputes supports with Fractions.",
         "Lean theorem + differential check"),
 "C17": ("Theorems on the loader model: result invariant under every permutation of the rows; kept iff exactly one usable row per sample (under the stated non-degeneracy), degenerate mixes rejected; numbering sorted; defaults; major < minor rejected; cluster path. Correspondence: load_data / load_pyclone_data on generated files; oracle recomputation and reload under permutations.",
         "Lean theorem + differential check"),
 "C18": ("Logic core proved (collected map independent of completion order, chain isolation, single-chain quirk); the model cannot exhibit OS scheduling, hash seeds or process state, so the property is decided by a runtime differential: the real CLI under varied PYTHONHASHSEED, CPU affinity, chain counts and injected start/finish orders must give bit-identical per-chain traces; plus a static scan for ambient randomness.",
         "runtime differential + Lean proof of the collection logic"),
 "C19": ("Guards proved on the run-loop model (retained-particle lookup in range, subtree choice non-empty or fallback, weights positive so normalisation never divides by zero, schedule total); run-level theorems composing C01/C03/C06/C07/C15: every outcome of every sampler model from a complete well-formed tree is complete and well formed, every state of any schedule has positive density, every recorded entry restores to a complete tree whose recorded density is its positive fixed-root density (support_complete_wf, run_states_ok, run_entries_ok). Exceptions inside third-party libraries, float underflow on large inputs and OS failures cannot be excluded by a model, so the property is decided by running run_phyclone_chain over the cross-product of boundary option values, the click command at the edges of every ranged option (clamping, clean rejection) and the CLI end to end, with an oracle on every trace entry.",
         "boundary cross-product exploration + Lean proof of the guards"),
 "C20": ("Every prefix length of sampled real trace files is fed to the three reader commands: outcome must be an error or byte-identical to the full file, monotone in the prefix length; crash points of the single write are simulated. Framing theorems (self-delimiting serialiser, stream container, read_prefix_safe) proved on the model under explicit lawfulness assumptions about gzip/pickle.",
         "exhaustive fault enumeration + Lean framing proof"),
}
TEXT = {k: v for k, v in TEXT.items() if v}
DEFAULT_NOTE = ("Trusted: Lean 4.33 kernel (axioms per theorem printed and required within propext / Classical.choice / Quot.sound), the "
                "hand-written model's correspondence to /repo as checked on this run's generated inputs, the enumerating stand-in for "
                "numpy's Generator, IEEE/numpy/scipy/rustworkx/pandas numerics and containers (modelled, not verified).")

checks, na = [], []
for p in props:
    pid = p["id"]
    f = os.path.join(R, "harness", "props", pid.lower() + ".py")
    if not os.path.exists(f):
        na.append({"property_id": pid, "reason": "check not merged yet in this session (slice under construction); see DESIGN.md section 6"})
        continue
    src = open(f).read()
    def attr(name, default=None):
        m = re.search(r"^%s\s*=\s*(.+?)(?=^\S)" % name, src, flags=re.M | re.S)
        if not m:
            return default
        try:
            return ast.literal_eval(m.group(1).strip())
        except Exception:
            return default
    level = attr("LEVEL", "proof")
    pf = os.path.join(R, "lean", "PhyModel", "Props", pid + ".lean")
    psrc = open(pf).read() if os.path.exists(pf) else ""
    stripped = re.sub(r"/-.*?-/", "", psrc, flags=re.S)
    if level == "proof" and ("OBLIGATION-OPEN" in psrc or not re.search(r"^theorem\s", re.sub(r"--.*", "", stripped), flags=re.M)):
        level = "other"
    text, tech = TEXT.get(pid, (None, None))
    if text is None:
        text = (attr("EXPLANATION") or attr("RULE") or "Lean model + property theorems + correspondence with the real code; see DESIGN.md section 6.")
        tech = {"proof": "Lean theorem + differential correspondence check", "other": "partial Lean proof + differential / runtime check",
                "fault_enumeration": "exhaustive fault enumeration + Lean framing proof"}.get(level, "Lean model + correspondence")
    if isinstance(text, str) and len(text) > 1500:
        text = text[:1500]
    checks.append({
        "property_id": pid,
        "quick_cmd": f"./check {pid}",
        "thorough_cmd": f"./check {pid} --tier thorough",
        "evidence_file": f"evidence/{pid}.json",
        "replay_cmd_template": f"./check {pid} --replay {{path}}",
        "engine": "lean-model+harness",
        "level_claimed": {"category": level, "text": text, "design_ref": f"DESIGN.md section 6, {pid}"},
        "level_note": DEFAULT_NOTE,
        "technique": tech,
    })
m = {
    "version": 1,
    "setup_cmd": "cd lean && lake build PhyModel driver",
    "hooks": {"guard": "PHYCLONE_VERIF", "enable": "no source hooks: the harness instruments phyclone at run time (attribute wrapping, __wrapped__, sitecustomize for spawned workers); phyclone is imported from /repo's working tree (editable install)",
              "baseline_off_cmd": "cd /repo && /venv/bin/python -m pytest -ra -q -p no:cacheprovider --timeout=900 --continue-on-collection-errors", "source_commits": [], "add_only": True},
    "engines": [{"name": "lean-model+harness", "path": "check", "serves_properties": [c["property_id"] for c in checks],
                 "kind_free_text": "Lean 4 model + theorems (lean/), Python correspondence harness (harness/), entry point ./check"}],
    "checks": checks,
    "not_applicable": na,
    "notes": "Genuine defects repaired in /repo as 'fix:' commits and open known findings are listed in known_findings.json and DESIGN.md section 7.",
}
json.dump(m, open(os.path.join(R, "MANIFEST.json"), "w"), indent=1)
print(len(checks), "checks;", [x["property_id"] for x in na], "not yet claimed")
